// simgen instruments a scratch copy of github.com/go-spring/log for
// deterministic simulation. It never touches the source tree: it loads the root
// package of -src with full type information and writes rewritten files to -dst.
//
// Rewrites (all decided from types.Info, not from names):
//
//	go f(x)                          -> verifsim.Go(site, func(){ f(x) })   (arguments evaluated first)
//	ch <- v                          -> Yield; ch <- v; Yield(post)
//	<-ch, v, ok := <-ch              -> verifsim.Recv / Recv2
//	select                           -> Yield before, Yield(post) at the head of every comm clause
//	for v := range ch                -> for { v, ok := Recv2(ch); if !ok { break }; ... }
//	for k, v := range map            -> range over verifsim.MapKeys(site, m) (choice-driven order)
//	atomic.* / sync.Map / Once / ... -> verifsim.Pre(site, f)(args)
//	mu.Lock/RLock/Unlock/RUnlock     -> verifsim.Acquire / Release (cooperative)
//	wg.Wait / cond.Wait              -> verifsim.Blocking
//	sync.Pool                        -> verifsim.Pool
//	os.X                             -> simos.X
//	time.Now/Since/Until/Sleep/AfterFunc -> verifsim equivalents
//	x.f++ / x.f op= e (field or package variable) -> read; Yield; write
package main

import (
	"bytes"
	"encoding/json"
	"flag"
	"fmt"
	"go/ast"
	"go/format"
	"go/token"
	"go/types"
	"io"
	"io/fs"
	"os"
	"path/filepath"
	"sort"
	"strconv"
	"strings"

	"golang.org/x/tools/go/ast/astutil"
	"golang.org/x/tools/go/packages"
)

const (
	simPath   = "github.com/go-spring/log/verifsim"
	simosPath = "github.com/go-spring/log/verifsim/simos"
)

type report struct {
	Files     []string       `json:"files"`
	Rewrites  map[string]int `json:"rewrites"`
	Unseamed  []string       `json:"unseamed"`
	ResetVars []string       `json:"reset_vars"`
}

var rep = report{Rewrites: map[string]int{}}

func fatal(f string, a ...any) {
	fmt.Fprintf(os.Stderr, "simgen: "+f+"\n", a...)
	os.Exit(2)
}

func main() {
	src := flag.String("src", "/repo", "source tree")
	dst := flag.String("dst", "", "destination directory (scratch)")
	sim := flag.String("sim", "", "directory holding the verifsim runtime sources")
	flag.Parse()
	if *dst == "" || *sim == "" {
		fatal("need -dst and -sim")
	}
	cfg := &packages.Config{
		Mode: packages.NeedName | packages.NeedFiles | packages.NeedCompiledGoFiles | packages.NeedSyntax |
			packages.NeedTypes | packages.NeedTypesInfo | packages.NeedImports | packages.NeedDeps,
		Dir: *src,
		Env: append(os.Environ(), "GOFLAGS=-mod=mod", "GOPROXY=off", "GOSUMDB=off", "GOTOOLCHAIN=local"),
	}
	pkgs, err := packages.Load(cfg, ".")
	if err != nil {
		fatal("load: %v", err)
	}
	if len(pkgs) != 1 {
		fatal("expected one package, got %d", len(pkgs))
	}
	pkg := pkgs[0]
	if len(pkg.Errors) > 0 {
		for _, e := range pkg.Errors {
			fmt.Fprintln(os.Stderr, "simgen: package error:", e)
		}
		os.Exit(2)
	}
	if err := os.MkdirAll(*dst, 0o755); err != nil {
		fatal("%v", err)
	}
	// package-level variables referenced by init functions must not be re-initialised by VerifReset
	initRefs := map[types.Object]bool{}
	for _, f := range pkg.Syntax {
		for _, d := range f.Decls {
			fd, ok := d.(*ast.FuncDecl)
			if !ok || fd.Recv != nil || fd.Name.Name != "init" || fd.Body == nil {
				continue
			}
			ast.Inspect(fd.Body, func(n ast.Node) bool {
				if id, ok := n.(*ast.Ident); ok {
					if v, ok := pkg.TypesInfo.Uses[id].(*types.Var); ok && v.Parent() == pkg.Types.Scope() {
						initRefs[v] = true
					}
				}
				return true
			})
		}
	}
	// package-level variables written by ordinary code (not by init bodies): shared plain memory.
	// Every simple statement that mentions one gets a scheduling point in front of it, so that
	// unsynchronised use of such a variable (a scratch buffer, a cache) can interleave.
	mutable := map[types.Object]bool{}
	markTarget := func(e ast.Expr) {
		for {
			switch x := ast.Unparen(e).(type) {
			case *ast.IndexExpr:
				e = x.X
				continue
			case *ast.SliceExpr:
				e = x.X
				continue
			case *ast.SelectorExpr:
				if _, isPkg := pkg.TypesInfo.Uses[identOf(x.X)].(*types.PkgName); isPkg {
					return
				}
				e = x.X
				continue
			case *ast.StarExpr:
				e = x.X
				continue
			case *ast.Ident:
				if v, ok := pkg.TypesInfo.Uses[x].(*types.Var); ok && v.Parent() == pkg.Types.Scope() {
					mutable[v] = true
				}
			}
			return
		}
	}
	for _, f := range pkg.Syntax {
		for _, d := range f.Decls {
			fd, ok := d.(*ast.FuncDecl)
			if !ok || fd.Body == nil {
				continue
			}
			isInit := fd.Recv == nil && fd.Name.Name == "init"
			var walk func(n ast.Node, inLit bool)
			walk = func(n ast.Node, inLit bool) {
				ast.Inspect(n, func(m ast.Node) bool {
					switch x := m.(type) {
					case *ast.FuncLit:
						if m != n {
							walk(x.Body, true)
							return false
						}
					case *ast.AssignStmt:
						if !isInit || inLit {
							for _, l := range x.Lhs {
								markTarget(l)
							}
						}
					case *ast.IncDecStmt:
						if !isInit || inLit {
							markTarget(x.X)
						}
					case *ast.UnaryExpr:
						if x.Op == token.AND && (!isInit || inLit) {
							markTarget(x.X)
						}
					case *ast.CallExpr:
						// append(v, ...) / copy(v[...], ...) / clear(v) / delete(v, k) on a package variable
						if id, ok := x.Fun.(*ast.Ident); ok && (id.Name == "copy" || id.Name == "clear" || id.Name == "delete") && len(x.Args) > 0 && (!isInit || inLit) {
							markTarget(x.Args[0])
						}
					}
					return true
				})
			}
			walk(fd.Body, false)
		}
	}
	// Fields of long-lived shared objects (types implementing Appender, Layout or Logger, and the
	// structs embedded in them) that some function assigns: unsynchronised per-object state such as
	// a scratch buffer or a cache kept in a layout. Statements mentioning them get a scheduling point.
	mutableFields := sharedMutableFields(pkg)
	for f := range mutableFields {
		mutable[f] = true
	}
	var reinitFuncs []string
	for i, f := range pkg.Syntax {
		name := filepath.Base(pkg.CompiledGoFiles[i])
		r := &rewriter{fset: pkg.Fset, info: pkg.TypesInfo, file: f, name: name, pkg: pkg.Types, initRefs: initRefs, mutable: mutable}
		out := r.run()
		if r.reinitName != "" {
			reinitFuncs = append(reinitFuncs, r.reinitName)
		}
		if err := os.WriteFile(filepath.Join(*dst, name), out, 0o644); err != nil {
			fatal("%v", err)
		}
		rep.Files = append(rep.Files, name)
	}
	// verbatim: go.mod, go.sum, sub-packages without their own go.mod (expr/)
	for _, n := range []string{"go.mod", "go.sum"} {
		copyFile(filepath.Join(*src, n), filepath.Join(*dst, n))
	}
	entries, _ := os.ReadDir(*src)
	for _, e := range entries {
		if !e.IsDir() || strings.HasPrefix(e.Name(), ".") || e.Name() == "verifsim" {
			continue
		}
		if _, err := os.Stat(filepath.Join(*src, e.Name(), "go.mod")); err == nil {
			continue
		}
		copyTree(filepath.Join(*src, e.Name()), filepath.Join(*dst, e.Name()))
	}
	// runtime
	copyTreeFiltered(*sim, filepath.Join(*dst, "verifsim"))
	writeReset(pkg, *dst, reinitFuncs)
	sort.Strings(rep.Unseamed)
	b, _ := json.MarshalIndent(rep, "", " ")
	os.WriteFile(filepath.Join(*dst, "simgen_report.json"), b, 0o644)
}

func copyFile(a, b string) {
	in, err := os.Open(a)
	if err != nil {
		fatal("%v", err)
	}
	defer in.Close()
	os.MkdirAll(filepath.Dir(b), 0o755)
	out, err := os.Create(b)
	if err != nil {
		fatal("%v", err)
	}
	defer out.Close()
	io.Copy(out, in)
}

func copyTree(a, b string) {
	filepath.WalkDir(a, func(p string, d fs.DirEntry, err error) error {
		if err != nil {
			return nil
		}
		rel, _ := filepath.Rel(a, p)
		if d.IsDir() {
			if _, err := os.Stat(filepath.Join(p, "go.mod")); err == nil {
				return filepath.SkipDir // nested module
			}
			return nil
		}
		if !strings.HasSuffix(p, ".go") || strings.HasSuffix(p, "_test.go") {
			return nil
		}
		copyFile(p, filepath.Join(b, rel))
		return nil
	})
}

func copyTreeFiltered(a, b string) {
	filepath.WalkDir(a, func(p string, d fs.DirEntry, err error) error {
		if err != nil || d.IsDir() {
			return nil
		}
		rel, _ := filepath.Rel(a, p)
		if !strings.HasSuffix(p, ".go") || strings.HasSuffix(p, "_test.go") {
			return nil
		}
		copyFile(p, filepath.Join(b, rel))
		return nil
	})
}

// ---------------------------------------------------------------- rewriter

type rewriter struct {
	fset    *token.FileSet
	info    *types.Info
	pkg     *types.Package
	file    *ast.File
	name    string
	skip    map[ast.Node]bool
	recv2   map[ast.Node]*ast.UnaryExpr
	multiSel map[*ast.SelectStmt]bool
	useSim  bool
	useOS   bool
	tmp     int
	initRefs   map[types.Object]bool
	reinitName string
	mutable    map[types.Object]bool
	inInit     bool
}

// sharedMutableFields returns the struct fields (of shared object types) that are assigned somewhere.
func sharedMutableFields(pkg *packages.Package) map[types.Object]bool {
	sc := pkg.Types.Scope()
	var ifaces []*types.Interface
	for _, n := range []string{"Appender", "Layout", "Logger"} {
		if o := sc.Lookup(n); o != nil {
			if it, ok := o.Type().Underlying().(*types.Interface); ok {
				ifaces = append(ifaces, it)
			}
		}
	}
	shared := map[*types.Struct]bool{}
	var mark func(t types.Type)
	mark = func(t types.Type) {
		st, ok := t.Underlying().(*types.Struct)
		if !ok || shared[st] {
			return
		}
		shared[st] = true
		for i := 0; i < st.NumFields(); i++ {
			if f := st.Field(i); f.Embedded() {
				ft := f.Type()
				if p, ok := ft.(*types.Pointer); ok {
					ft = p.Elem()
				}
				mark(ft)
			}
		}
	}
	for _, n := range sc.Names() {
		tn, ok := sc.Lookup(n).(*types.TypeName)
		if !ok {
			continue
		}
		for _, it := range ifaces {
			if types.Implements(types.NewPointer(tn.Type()), it) || types.Implements(tn.Type(), it) {
				mark(tn.Type())
			}
		}
	}
	fieldOf := map[types.Object]bool{}
	for st := range shared {
		for i := 0; i < st.NumFields(); i++ {
			fieldOf[st.Field(i)] = true
		}
	}
	out := map[types.Object]bool{}
	var target func(e ast.Expr)
	target = func(e ast.Expr) {
		switch x := ast.Unparen(e).(type) {
		case *ast.IndexExpr:
			target(x.X)
		case *ast.SliceExpr:
			target(x.X)
		case *ast.StarExpr:
			target(x.X)
		case *ast.SelectorExpr:
			if sel, ok := pkg.TypesInfo.Selections[x]; ok && sel.Kind() == types.FieldVal && fieldOf[sel.Obj()] {
				out[sel.Obj()] = true
			}
			target(x.X)
		}
	}
	for _, f := range pkg.Syntax {
		ast.Inspect(f, func(n ast.Node) bool {
			switch x := n.(type) {
			case *ast.AssignStmt:
				for _, l := range x.Lhs {
					target(l)
				}
			case *ast.IncDecStmt:
				target(x.X)
			case *ast.UnaryExpr:
				if x.Op == token.AND {
					target(x.X)
				}
			}
			return true
		})
	}
	return out
}

func identOf(e ast.Expr) *ast.Ident {
	id, _ := ast.Unparen(e).(*ast.Ident)
	return id
}

// mentionsMutable returns the name of a mutable package-level variable the
// expressions mention (function literals are not entered), or "".
func (r *rewriter) mentionsMutable(exprs ...ast.Node) string {
	found := ""
	for _, e := range exprs {
		if e == nil || found != "" {
			continue
		}
		ast.Inspect(e, func(n ast.Node) bool {
			if found != "" {
				return false
			}
			switch x := n.(type) {
			case *ast.FuncLit:
				return false
			case *ast.Ident:
				if v, ok := r.info.Uses[x].(*types.Var); ok && r.mutable[v] {
					found = v.Name()
				}
			case *ast.SelectorExpr:
				if sel, ok := r.info.Selections[x]; ok && sel.Kind() == types.FieldVal && r.mutable[sel.Obj()] {
					found = "." + sel.Obj().Name()
				}
			}
			return true
		})
	}
	return found
}

// sharedVarYield inserts a scheduling point before a statement of a statement
// list that reads or writes shared plain memory.
func (r *rewriter) sharedVarYield(c *astutil.Cursor, n ast.Stmt) {
	if c.Index() < 0 || r.inInit {
		return
	}
	name := ""
	switch x := n.(type) {
	case *ast.AssignStmt:
		var nodes []ast.Node
		for _, e := range x.Lhs {
			nodes = append(nodes, e)
		}
		for _, e := range x.Rhs {
			nodes = append(nodes, e)
		}
		name = r.mentionsMutable(nodes...)
	case *ast.ExprStmt:
		name = r.mentionsMutable(x.X)
	case *ast.IncDecStmt:
		name = r.mentionsMutable(x.X)
	case *ast.ReturnStmt:
		var nodes []ast.Node
		for _, e := range x.Results {
			nodes = append(nodes, e)
		}
		name = r.mentionsMutable(nodes...)
	case *ast.IfStmt:
		if x.Init != nil {
			name = r.mentionsMutable(x.Init)
		}
		if name == "" {
			name = r.mentionsMutable(x.Cond)
		}
	case *ast.SwitchStmt:
		if x.Tag != nil {
			name = r.mentionsMutable(x.Tag)
		}
	case *ast.RangeStmt:
		name = r.mentionsMutable(x.X)
	}
	if name != "" {
		c.InsertBefore(r.yieldStmt(r.site(n, "shared:"+name)))
		rep.Rewrites["shared_var_yield"]++
	}
}

func (r *rewriter) site(n ast.Node, kind string) ast.Expr {
	p := r.fset.Position(n.Pos())
	return &ast.BasicLit{Kind: token.STRING, Value: strconv.Quote(fmt.Sprintf("%s:%d:%s", r.name, p.Line, kind))}
}

func (r *rewriter) sitePost(n ast.Node, kind string) ast.Expr {
	p := r.fset.Position(n.Pos())
	return &ast.BasicLit{Kind: token.STRING, Value: strconv.Quote(fmt.Sprintf("%s:%d:%s/post", r.name, p.Line, kind))}
}

func (r *rewriter) sim(name string) ast.Expr {
	r.useSim = true
	return &ast.SelectorExpr{X: ast.NewIdent("verifsim"), Sel: ast.NewIdent(name)}
}

func (r *rewriter) call(name string, args ...ast.Expr) *ast.CallExpr {
	return &ast.CallExpr{Fun: r.sim(name), Args: args}
}

func (r *rewriter) yieldStmt(site ast.Expr) ast.Stmt {
	rep.Rewrites["yield"]++
	return &ast.ExprStmt{X: r.call("Yield", site)}
}

func (r *rewriter) unseamed(n ast.Node, what string) {
	p := r.fset.Position(n.Pos())
	rep.Unseamed = append(rep.Unseamed, fmt.Sprintf("%s:%d: %s", r.name, p.Line, what))
}

func (r *rewriter) fresh(prefix string) string {
	r.tmp++
	return fmt.Sprintf("__vs_%s%d", prefix, r.tmp)
}

// pkgNameOf returns the imported package path if e is an identifier naming an import.
func (r *rewriter) pkgNameOf(e ast.Expr) string {
	id, ok := e.(*ast.Ident)
	if !ok {
		return ""
	}
	if pn, ok := r.info.Uses[id].(*types.PkgName); ok {
		return pn.Imported().Path()
	}
	return ""
}

func namedOf(t types.Type) (pkg, name string) {
	if t == nil {
		return "", ""
	}
	if p, ok := t.(*types.Pointer); ok {
		t = p.Elem()
	}
	t = types.Unalias(t)
	if n, ok := t.(*types.Named); ok {
		if n.Obj().Pkg() != nil {
			return n.Obj().Pkg().Path(), n.Obj().Name()
		}
	}
	return "", ""
}

// calleeOf classifies a call: returns (package path, receiver type name or "", function name).
func (r *rewriter) calleeOf(c *ast.CallExpr) (pkg, recv, fn string) {
	fun := ast.Unparen(c.Fun)
	// generic instantiation f[T](...)
	if ix, ok := fun.(*ast.IndexExpr); ok {
		fun = ix.X
	}
	sel, ok := fun.(*ast.SelectorExpr)
	if !ok {
		return "", "", ""
	}
	if s, ok := r.info.Selections[sel]; ok && s.Kind() == types.MethodVal {
		f, _ := s.Obj().(*types.Func)
		if f == nil {
			return "", "", ""
		}
		sig := f.Type().(*types.Signature)
		if sig.Recv() == nil {
			return "", "", ""
		}
		p, n := namedOf(sig.Recv().Type())
		return p, n, f.Name()
	}
	if f, ok := r.info.Uses[sel.Sel].(*types.Func); ok && f.Pkg() != nil {
		return f.Pkg().Path(), "", f.Name()
	}
	return "", "", ""
}

func simpleExpr(e ast.Expr) bool {
	switch x := e.(type) {
	case *ast.Ident:
		return true
	case *ast.SelectorExpr:
		return simpleExpr(x.X)
	case *ast.ParenExpr:
		return simpleExpr(x.X)
	case *ast.StarExpr:
		return simpleExpr(x.X)
	}
	return false
}

func (r *rewriter) isChan(e ast.Expr) bool {
	t := r.info.TypeOf(e)
	if t == nil {
		return false
	}
	_, ok := t.Underlying().(*types.Chan)
	return ok
}

func (r *rewriter) run() []byte {
	r.skip = map[ast.Node]bool{}
	r.recv2 = map[ast.Node]*ast.UnaryExpr{}
	r.multiSel = map[*ast.SelectStmt]bool{}
	astutil.Apply(r.file, r.pre, r.post)
	r.fixImports()
	r.stripComments()
	var buf bytes.Buffer
	if err := format.Node(&buf, r.fset, r.file); err != nil {
		fatal("format %s: %v", r.name, err)
	}
	if body := r.reinitBody(); body != "" {
		r.reinitName = "verifReinit_" + strings.NewReplacer(".", "_", "-", "_").Replace(strings.TrimSuffix(r.name, ".go"))
		fmt.Fprintf(&buf, "\n// %s re-creates the package-level objects declared in this file (generated).\nfunc %s() {\n%s}\n", r.reinitName, r.reinitName, body)
		rep.Rewrites["reinit_func"]++
	}
	return buf.Bytes()
}

func hasCallOutsideFuncLit(e ast.Expr) bool {
	found := false
	ast.Inspect(e, func(n ast.Node) bool {
		switch n.(type) {
		case *ast.FuncLit:
			return false
		case *ast.CallExpr:
			found = true
		}
		return !found
	})
	return found
}

func (r *rewriter) exprString(e ast.Node) string {
	var b bytes.Buffer
	if err := format.Node(&b, token.NewFileSet(), e); err != nil {
		return ""
	}
	return b.String()
}

// reinitBody returns assignments that bring struct-valued package-level variables of this file
// back to their declared initial value: state hidden inside such objects (a cache added to a
// layout, a counter in a default logger) must not leak from one simulated case into the next.
func (r *rewriter) reinitBody() string {
	var out strings.Builder
	for _, d := range r.file.Decls {
		gd, ok := d.(*ast.GenDecl)
		if !ok || gd.Tok != token.VAR {
			continue
		}
		for _, sp := range gd.Specs {
			vs := sp.(*ast.ValueSpec)
			if len(vs.Names) != 1 || vs.Names[0].Name == "_" {
				continue
			}
			obj := r.info.Defs[vs.Names[0]]
			if obj == nil || r.initRefs[obj] {
				continue
			}
			name := vs.Names[0].Name
			switch {
			case len(vs.Values) == 1:
				v := ast.Unparen(vs.Values[0])
				lit := v
				if u, ok := v.(*ast.UnaryExpr); ok && u.Op == token.AND {
					lit = ast.Unparen(u.X)
				}
				if name == "Stdout" {
					// the console stream seam: evaluate its initialiser again for every case, whatever it is
					if str := r.exprString(v); str != "" {
						fmt.Fprintf(&out, "\t%s = %s\n", name, str)
					}
					continue
				}
				if call, isCall := v.(*ast.CallExpr); isCall {
					// a package-level channel is run-time state (a free list, a queue): make it anew
					if id, ok := call.Fun.(*ast.Ident); ok && id.Name == "make" && len(call.Args) >= 1 {
						if _, isChan := call.Args[0].(*ast.ChanType); isChan {
							if str := r.exprString(v); str != "" {
								fmt.Fprintf(&out, "\t%s = %s\n", name, str)
							}
						}
					}
					continue
				}
				cl, ok := lit.(*ast.CompositeLit)
				if !ok || hasCallOutsideFuncLit(v) {
					continue
				}
				if t := r.info.TypeOf(cl); t != nil {
					if _, isStruct := t.Underlying().(*types.Struct); !isStruct {
						continue
					}
				}
				if str := r.exprString(v); str != "" {
					fmt.Fprintf(&out, "\t%s = %s\n", name, str)
				}
			case len(vs.Values) == 0 && vs.Type != nil:
				t := r.info.TypeOf(vs.Type)
				if t == nil {
					continue
				}
				if _, isStruct := t.Underlying().(*types.Struct); !isStruct {
					continue
				}
				if str := r.exprString(vs.Type); str != "" {
					fmt.Fprintf(&out, "\t%s = *new(%s)\n", name, str)
				}
			}
		}
	}
	return out.String()
}

func (r *rewriter) pre(c *astutil.Cursor) bool {
	if fd, ok := c.Node().(*ast.FuncDecl); ok {
		r.inInit = fd.Recv == nil && fd.Name.Name == "init"
	}
	if st, ok := c.Node().(ast.Stmt); ok {
		r.sharedVarYield(c, st)
	}
	switch n := c.Node().(type) {
	case *ast.SelectStmt:
		nonDefault := 0
		for _, cl := range n.Body.List {
			if cl.(*ast.CommClause).Comm != nil {
				nonDefault++
			}
		}
		_, labelled := c.Parent().(*ast.LabeledStmt)
		multi := nonDefault > 1 && !labelled
		if nonDefault > 1 && labelled {
			r.unseamed(n, "labelled select with more than one communication case (native random choice)")
		}
		for _, cl := range n.Body.List {
			cc := cl.(*ast.CommClause)
			if cc.Comm == nil {
				continue
			}
			r.markComm(cc.Comm)
			if !multi {
				cc.Body = append([]ast.Stmt{r.yieldStmt(r.sitePost(cc, "select"))}, cc.Body...)
			}
		}
		if multi {
			r.multiSel[n] = true
		}
		rep.Rewrites["select"]++
	case *ast.AssignStmt:
		if len(n.Lhs) == 2 && len(n.Rhs) == 1 {
			if u, ok := ast.Unparen(n.Rhs[0]).(*ast.UnaryExpr); ok && u.Op == token.ARROW && !r.skip[u] {
				r.skip[u] = true
				r.recv2[n] = u
			}
		}
	case *ast.ValueSpec:
		if len(n.Names) == 2 && len(n.Values) == 1 {
			if u, ok := ast.Unparen(n.Values[0]).(*ast.UnaryExpr); ok && u.Op == token.ARROW {
				r.skip[u] = true
				r.recv2[n] = u
			}
		}
	}
	return true
}

// post performs every replacement bottom-up, so that a replacement node is
// built from children that are already rewritten.
func (r *rewriter) post(c *astutil.Cursor) bool {
	switch n := c.Node().(type) {
	case *ast.SelectStmt:
		if r.multiSel[n] {
			c.Replace(r.rewriteMultiSelect(n))
			rep.Rewrites["select_multi"]++
			return true
		}
		if c.Index() >= 0 {
			c.InsertBefore(r.yieldStmt(r.site(n, "select")))
		} else {
			r.unseamed(n, "select not in a statement list: no pre-yield")
		}
	case *ast.SendStmt:
		if r.skip[n] {
			return true
		}
		if c.Index() >= 0 {
			c.InsertBefore(r.yieldStmt(r.site(n, "send")))
			c.InsertAfter(r.yieldStmt(r.sitePost(n, "send")))
			rep.Rewrites["send"]++
		} else {
			r.unseamed(n, "send not in a statement list")
		}
	case *ast.AssignStmt:
		if u := r.recv2[n]; u != nil {
			n.Rhs[0] = r.call("Recv2", r.site(u, "recv"), u.X)
			rep.Rewrites["recv"]++
		}
		if c.Index() >= 0 && len(n.Lhs) == 1 && n.Tok != token.ASSIGN && n.Tok != token.DEFINE {
			if blk := r.splitRMW(n, n.Lhs[0], n.Tok, n.Rhs[0]); blk != nil {
				c.Replace(blk)
			}
		}
	case *ast.IncDecStmt:
		if c.Index() >= 0 {
			op := token.ADD_ASSIGN
			if n.Tok == token.DEC {
				op = token.SUB_ASSIGN
			}
			if blk := r.splitRMW(n, n.X, op, &ast.BasicLit{Kind: token.INT, Value: "1"}); blk != nil {
				c.Replace(blk)
			}
		}
	case *ast.ValueSpec:
		if u := r.recv2[n]; u != nil {
			n.Values[0] = r.call("Recv2", r.site(u, "recv"), u.X)
			rep.Rewrites["recv"]++
		}
	case *ast.UnaryExpr:
		if n.Op == token.ARROW && !r.skip[n] {
			c.Replace(r.call("Recv", r.site(n, "recv"), n.X))
			rep.Rewrites["recv"]++
		}
	case *ast.RangeStmt:
		r.rewriteRange(c, n)
	case *ast.GoStmt:
		r.rewriteGo(c, n)
	case *ast.CallExpr:
		r.rewriteCall(c, n)
	case *ast.SelectorExpr:
		switch r.pkgNameOf(n.X) {
		case "os":
			n.X = ast.NewIdent("simos")
			r.useOS = true
			rep.Rewrites["os"]++
		case "sync":
			if n.Sel.Name == "Pool" {
				c.Replace(r.sim("Pool"))
				rep.Rewrites["pool"]++
			} else if n.Sel.Name == "Once" {
				c.Replace(r.sim("Once"))
				rep.Rewrites["once"]++
			}
		case "time":
			switch n.Sel.Name {
			case "Now", "Since", "Until":
				c.Replace(r.sim(n.Sel.Name))
				rep.Rewrites["clock"]++
			}
		}
	}
	return true
}

// rewriteMultiSelect turns a select with two or more communication clauses into
//
//	{ c0 := ch0; c1 := ch1; s1 := val; i, v, ok := verifsim.Select(site, hasDefault, RecvOf(c0), SendOf(c1, s1))
//	  switch i { case 0: x := verifsim.AsOf(c0, v); body0  case 1: body1  case -1: defaultBody } }
//
// so that the choice among ready cases is made by the simulation instead of the runtime's random pick.
func (r *rewriter) rewriteMultiSelect(n *ast.SelectStmt) ast.Stmt {
	idx, val, okv := ast.NewIdent(r.fresh("i")), ast.NewIdent(r.fresh("v")), ast.NewIdent(r.fresh("ok"))
	var pre []ast.Stmt
	var cases []ast.Expr
	var clauses []ast.Stmt
	hasDefault := "false"
	k := 0
	for _, cl := range n.Body.List {
		cc := cl.(*ast.CommClause)
		if cc.Comm == nil {
			hasDefault = "true"
			clauses = append(clauses, &ast.CaseClause{List: nil, Body: cc.Body}) // the switch's default clause
			continue
		}
		chTmp := ast.NewIdent(r.fresh("c"))
		var head []ast.Stmt
		switch x := cc.Comm.(type) {
		case *ast.SendStmt:
			pre = append(pre, &ast.AssignStmt{Lhs: []ast.Expr{chTmp}, Tok: token.DEFINE, Rhs: []ast.Expr{x.Chan}})
			var sv ast.Expr = x.Value
			if tv, ok := r.info.Types[x.Value]; ok && !tv.IsNil() {
				sTmp := ast.NewIdent(r.fresh("s"))
				pre = append(pre, &ast.AssignStmt{Lhs: []ast.Expr{sTmp}, Tok: token.DEFINE, Rhs: []ast.Expr{x.Value}})
				sv = sTmp
			}
			cases = append(cases, r.call("SendOf", chTmp, sv))
		case *ast.ExprStmt:
			u := ast.Unparen(x.X).(*ast.UnaryExpr)
			pre = append(pre, &ast.AssignStmt{Lhs: []ast.Expr{chTmp}, Tok: token.DEFINE, Rhs: []ast.Expr{u.X}})
			cases = append(cases, r.call("RecvOf", chTmp))
		case *ast.AssignStmt:
			u := ast.Unparen(x.Rhs[0]).(*ast.UnaryExpr)
			pre = append(pre, &ast.AssignStmt{Lhs: []ast.Expr{chTmp}, Tok: token.DEFINE, Rhs: []ast.Expr{u.X}})
			cases = append(cases, r.call("RecvOf", chTmp))
			rhs := []ast.Expr{r.call("AsOf", chTmp, val)}
			if len(x.Lhs) == 2 {
				rhs = append(rhs, okv)
			}
			tok := x.Tok
			allBlank := true
			for _, l := range x.Lhs {
				if !isBlank(l) {
					allBlank = false
				}
			}
			if allBlank {
				tok = token.ASSIGN
			}
			head = append(head, &ast.AssignStmt{Lhs: x.Lhs, Tok: tok, Rhs: rhs})
		}
		clauses = append(clauses, &ast.CaseClause{List: []ast.Expr{&ast.BasicLit{Kind: token.INT, Value: strconv.Itoa(k)}}, Body: append(head, cc.Body...)})
		k++
	}
	if hasDefault == "false" {
		// keeps the construct a terminating statement when every clause of the select terminates
		clauses = append(clauses, &ast.CaseClause{List: nil, Body: []ast.Stmt{&ast.ExprStmt{X: &ast.CallExpr{Fun: ast.NewIdent("panic"),
			Args: []ast.Expr{&ast.BasicLit{Kind: token.STRING, Value: strconv.Quote("verifsim: impossible select index")}}}}}})
	}
	args := append([]ast.Expr{r.site(n, "select"), ast.NewIdent(hasDefault)}, cases...)
	stmts := append(pre,
		&ast.AssignStmt{Lhs: []ast.Expr{idx, val, okv}, Tok: token.DEFINE, Rhs: []ast.Expr{r.call("Select", args...)}},
		&ast.AssignStmt{Lhs: []ast.Expr{ast.NewIdent("_"), ast.NewIdent("_")}, Tok: token.ASSIGN, Rhs: []ast.Expr{val, okv}},
		&ast.SwitchStmt{Tag: idx, Body: &ast.BlockStmt{List: clauses}})
	return &ast.BlockStmt{List: stmts}
}

// markComm marks the communication of a select clause as not to be rewritten.
func (r *rewriter) markComm(s ast.Stmt) {
	switch x := s.(type) {
	case *ast.SendStmt:
		r.skip[x] = true
	case *ast.ExprStmt:
		if u, ok := ast.Unparen(x.X).(*ast.UnaryExpr); ok {
			r.skip[u] = true
		}
	case *ast.AssignStmt:
		if len(x.Rhs) == 1 {
			if u, ok := ast.Unparen(x.Rhs[0]).(*ast.UnaryExpr); ok {
				r.skip[u] = true
			}
		}
	}
}

// splitRMW turns x.f op= e into { t := x.f; Yield; x.f = t op e } when x.f is a
// struct field or a package-level variable of basic type.
func (r *rewriter) splitRMW(n ast.Stmt, lhs ast.Expr, tok token.Token, rhs ast.Expr) ast.Stmt {
	lhs = ast.Unparen(lhs)
	shared := false
	switch x := lhs.(type) {
	case *ast.SelectorExpr:
		if s, ok := r.info.Selections[x]; ok && s.Kind() == types.FieldVal && simpleExpr(x.X) {
			shared = true
		} else if r.pkgNameOf(x.X) != "" {
			shared = true
		}
	case *ast.Ident:
		if v, ok := r.info.Uses[x].(*types.Var); ok && v.Parent() == r.pkg.Scope() {
			shared = true
		}
	}
	if !shared {
		return nil
	}
	t := r.info.TypeOf(lhs)
	if t == nil {
		return nil
	}
	if _, ok := t.Underlying().(*types.Basic); !ok {
		return nil
	}
	var op token.Token
	switch tok {
	case token.ADD_ASSIGN:
		op = token.ADD
	case token.SUB_ASSIGN:
		op = token.SUB
	case token.MUL_ASSIGN:
		op = token.MUL
	case token.QUO_ASSIGN:
		op = token.QUO
	case token.REM_ASSIGN:
		op = token.REM
	case token.AND_ASSIGN:
		op = token.AND
	case token.OR_ASSIGN:
		op = token.OR
	case token.XOR_ASSIGN:
		op = token.XOR
	case token.SHL_ASSIGN:
		op = token.SHL
	case token.SHR_ASSIGN:
		op = token.SHR
	case token.AND_NOT_ASSIGN:
		op = token.AND_NOT
	default:
		return nil
	}
	tmp := ast.NewIdent(r.fresh("t"))
	rep.Rewrites["rmw_split"]++
	return &ast.BlockStmt{List: []ast.Stmt{
		&ast.AssignStmt{Lhs: []ast.Expr{tmp}, Tok: token.DEFINE, Rhs: []ast.Expr{lhs}},
		r.yieldStmt(r.site(n, "rmw")),
		&ast.AssignStmt{Lhs: []ast.Expr{lhs}, Tok: token.ASSIGN, Rhs: []ast.Expr{
			&ast.BinaryExpr{X: tmp, Op: op, Y: &ast.ParenExpr{X: rhs}}}},
	}}
}

func isBlank(e ast.Expr) bool {
	id, ok := e.(*ast.Ident)
	return ok && id.Name == "_"
}

func (r *rewriter) rewriteRange(c *astutil.Cursor, n *ast.RangeStmt) {
	// range over maps.Keys(m) / maps.Values(m) / maps.All(m) is a map range in disguise
	if call, ok := ast.Unparen(n.X).(*ast.CallExpr); ok && len(call.Args) == 1 {
		if sel, ok := call.Fun.(*ast.SelectorExpr); ok && r.pkgNameOf(sel.X) == "maps" && n.Tok == token.DEFINE {
			if mt := r.info.TypeOf(call.Args[0]); mt != nil {
				if _, isMap := mt.Underlying().(*types.Map); isMap {
					switch sel.Sel.Name {
					case "Keys", "All":
						n.X = call.Args[0]
					case "Values":
						if n.Value == nil {
							n.X = call.Args[0]
							n.Key, n.Value = ast.NewIdent("_"), n.Key
						}
					}
				}
			}
		}
	}
	t := r.info.TypeOf(n.X)
	if t == nil {
		return
	}
	switch u := t.Underlying().(type) {
	case *types.Chan:
		// for v := range ch { body }  ->  for { v, ok := Recv2(site, ch); if !ok { break }; body }
		ok := ast.NewIdent(r.fresh("ok"))
		recv := r.call("Recv2", r.site(n, "range"), n.X)
		var head []ast.Stmt
		switch {
		case n.Key == nil || isBlank(n.Key):
			head = append(head, &ast.AssignStmt{Lhs: []ast.Expr{ast.NewIdent("_"), ok}, Tok: token.DEFINE, Rhs: []ast.Expr{recv}})
		case n.Tok == token.DEFINE:
			head = append(head, &ast.AssignStmt{Lhs: []ast.Expr{n.Key, ok}, Tok: token.DEFINE, Rhs: []ast.Expr{recv}})
		default:
			head = append(head,
				&ast.DeclStmt{Decl: &ast.GenDecl{Tok: token.VAR, Specs: []ast.Spec{&ast.ValueSpec{Names: []*ast.Ident{ok}, Type: ast.NewIdent("bool")}}}},
				&ast.AssignStmt{Lhs: []ast.Expr{n.Key, ok}, Tok: token.ASSIGN, Rhs: []ast.Expr{recv}})
		}
		head = append(head, &ast.IfStmt{Cond: &ast.UnaryExpr{Op: token.NOT, X: ok}, Body: &ast.BlockStmt{List: []ast.Stmt{&ast.BranchStmt{Tok: token.BREAK}}}})
		n.Body.List = append(head, n.Body.List...)
		c.Replace(&ast.ForStmt{Body: n.Body})
		rep.Rewrites["range_chan"]++
	case *types.Map:
		b, okb := u.Key().Underlying().(*types.Basic)
		if !okb || b.Info()&(types.IsString|types.IsInteger) == 0 {
			r.unseamed(n, "range over map with non-ordered key type (native order)")
			return
		}
		if n.Tok != token.DEFINE && n.Key != nil {
			r.unseamed(n, "range over map with assignment form (native order)")
			return
		}
		if !simpleExpr(n.X) {
			r.unseamed(n, "range over map expression that is not a simple operand (native order)")
			return
		}
		m := n.X
		var key ast.Expr = n.Key
		if key == nil || isBlank(key) {
			key = ast.NewIdent(r.fresh("k"))
		}
		if n.Value != nil && !isBlank(n.Value) {
			ok := ast.NewIdent(r.fresh("ok"))
			n.Body.List = append([]ast.Stmt{
				&ast.AssignStmt{Lhs: []ast.Expr{n.Value, ok}, Tok: token.DEFINE, Rhs: []ast.Expr{&ast.IndexExpr{X: m, Index: key}}},
				&ast.IfStmt{Cond: &ast.UnaryExpr{Op: token.NOT, X: ok}, Body: &ast.BlockStmt{List: []ast.Stmt{&ast.BranchStmt{Tok: token.CONTINUE}}}},
			}, n.Body.List...)
		}
		n.X = r.call("MapKeys", r.site(n, "maprange"), m)
		n.Key = ast.NewIdent("_")
		n.Value = key
		n.Tok = token.DEFINE
		rep.Rewrites["range_map"]++
	}
}

func (r *rewriter) rewriteGo(c *astutil.Cursor, n *ast.GoStmt) {
	call := n.Call
	var pre []ast.Stmt
	// bind the function value unless it is a literal, a builtin or a plain function name
	switch f := ast.Unparen(call.Fun).(type) {
	case *ast.FuncLit:
	case *ast.Ident:
		if _, isVar := r.info.Uses[f].(*types.Var); isVar {
			tmp := ast.NewIdent(r.fresh("f"))
			pre = append(pre, &ast.AssignStmt{Lhs: []ast.Expr{tmp}, Tok: token.DEFINE, Rhs: []ast.Expr{call.Fun}})
			call.Fun = tmp
		}
	default:
		if r.pkgNameOf(selX(call.Fun)) == "" {
			tmp := ast.NewIdent(r.fresh("f"))
			pre = append(pre, &ast.AssignStmt{Lhs: []ast.Expr{tmp}, Tok: token.DEFINE, Rhs: []ast.Expr{call.Fun}})
			call.Fun = tmp
		}
	}
	for i, a := range call.Args {
		tv, ok := r.info.Types[a]
		if !ok || tv.Value != nil || tv.IsNil() || tv.IsType() {
			continue
		}
		if b, ok := tv.Type.(*types.Basic); ok && b.Info()&types.IsUntyped != 0 {
			continue
		}
		tmp := ast.NewIdent(r.fresh("a"))
		pre = append(pre, &ast.AssignStmt{Lhs: []ast.Expr{tmp}, Tok: token.DEFINE, Rhs: []ast.Expr{a}})
		call.Args[i] = tmp
	}
	spawn := &ast.ExprStmt{X: r.call("Go", r.site(n, "go"),
		&ast.FuncLit{Type: &ast.FuncType{Params: &ast.FieldList{}}, Body: &ast.BlockStmt{List: []ast.Stmt{&ast.ExprStmt{X: call}}}})}
	rep.Rewrites["go"]++
	c.Replace(&ast.BlockStmt{List: append(pre, spawn)})
}

func selX(e ast.Expr) ast.Expr {
	if s, ok := ast.Unparen(e).(*ast.SelectorExpr); ok {
		return s.X
	}
	return nil
}

func (r *rewriter) rewriteCall(c *astutil.Cursor, n *ast.CallExpr) {
	pkg, recv, fn := r.calleeOf(n)
	if pkg == "" {
		return
	}
	sel, _ := ast.Unparen(n.Fun).(*ast.SelectorExpr)
	switch {
	case pkg == "sync/atomic":
		n.Fun = r.call(r.wrapper(n), r.site(n, "atomic."+recv+"."+fn), n.Fun)
		rep.Rewrites["atomic"]++
	case pkg == "sync" && (recv == "Mutex" || recv == "RWMutex") && sel != nil:
		x := sel.X
		mv := func(name string) ast.Expr { return &ast.SelectorExpr{X: x, Sel: ast.NewIdent(name)} }
		switch fn {
		case "Lock":
			c.Replace(r.call("Acquire", r.site(n, "lock"), mv("TryLock"), mv("Lock")))
		case "RLock":
			c.Replace(r.call("Acquire", r.site(n, "rlock"), mv("TryRLock"), mv("RLock")))
		case "Unlock":
			c.Replace(r.call("Release", mv("Unlock")))
		case "RUnlock":
			c.Replace(r.call("Release", mv("RUnlock")))
		default:
			return
		}
		if !simpleExpr(x) {
			r.unseamed(n, "mutex operand is not a simple expression (evaluated twice)")
		}
		rep.Rewrites["mutex"]++
	case pkg == "sync" && (recv == "WaitGroup" || recv == "Cond") && fn == "Wait" && sel != nil:
		c.Replace(r.call("Blocking", r.site(n, recv+".Wait"), n.Fun))
		rep.Rewrites["blocking"]++
	case pkg == "sync" && recv == "WaitGroup" && fn == "Go":
		r.unseamed(n, "WaitGroup.Go starts an untracked goroutine")
	case pkg == "sync" && (recv == "Pool" || recv == "Once"):
		// the type is replaced by its verifsim counterpart, which yields itself
	case pkg == "sync" && recv != "":
		n.Fun = r.call(r.wrapper(n), r.site(n, "sync."+recv+"."+fn), n.Fun)
		rep.Rewrites["sync"]++
	case pkg == "time" && recv == "" && fn == "Sleep":
		c.Replace(r.call("Sleep", append([]ast.Expr{r.site(n, "sleep")}, n.Args...)...))
		rep.Rewrites["sleep"]++
	case pkg == "time" && recv == "" && fn == "AfterFunc":
		c.Replace(r.call("AfterFunc", append([]ast.Expr{r.site(n, "afterfunc")}, n.Args...)...))
		rep.Rewrites["afterfunc"]++
	case pkg == "runtime" && fn == "Gosched":
		c.Replace(r.call("Yield", r.site(n, "gosched")))
	}
}

// wrapper picks verifsim.W<params><results> for the callee's signature (the
// yield then sits after argument evaluation, directly before the operation);
// signatures it has no wrapper for fall back to Pre (yield before the arguments).
func (r *rewriter) wrapper(c *ast.CallExpr) string {
	t := r.info.TypeOf(c.Fun)
	sig, ok := t.(*types.Signature)
	if !ok || sig.Variadic() || sig.Params().Len() > 3 || sig.Results().Len() > 2 {
		return "Pre"
	}
	return fmt.Sprintf("W%d%d", sig.Params().Len(), sig.Results().Len())
}

func (r *rewriter) usesName(name string) bool {
	used := false
	ast.Inspect(r.file, func(n ast.Node) bool {
		if s, ok := n.(*ast.SelectorExpr); ok {
			if id, ok := s.X.(*ast.Ident); ok && id.Name == name {
				used = true
			}
		}
		return !used
	})
	return used
}

func (r *rewriter) fixImports() {
	for _, imp := range append([]*ast.ImportSpec(nil), r.file.Imports...) {
		p, _ := strconv.Unquote(imp.Path.Value)
		name := filepath.Base(p)
		if strings.HasPrefix(name, "v") && len(name) > 1 && name[1] >= '0' && name[1] <= '9' {
			name = filepath.Base(filepath.Dir(p))
		}
		if imp.Name != nil {
			if imp.Name.Name == "_" || imp.Name.Name == "." {
				continue
			}
			name = imp.Name.Name
		}
		if p == "os" || p == "sync" || p == "time" || p == "sync/atomic" || p == "runtime" || p == "maps" {
			if !r.usesName(name) {
				if imp.Name != nil {
					astutil.DeleteNamedImport(r.fset, r.file, imp.Name.Name, p)
				} else {
					astutil.DeleteImport(r.fset, r.file, p)
				}
			}
		}
	}
	if r.useSim {
		astutil.AddImport(r.fset, r.file, simPath)
	}
	if r.useOS {
		astutil.AddImport(r.fset, r.file, simosPath)
	}
}

// stripComments drops every comment except those before the package clause
// (build constraints, licence) and //go: directives in declaration docs: the
// rewritten nodes have no positions and stray comments could be misplaced.
func (r *rewriter) stripComments() {
	keep := map[*ast.CommentGroup]bool{}
	for _, d := range r.file.Decls {
		var doc *ast.CommentGroup
		switch x := d.(type) {
		case *ast.FuncDecl:
			doc = x.Doc
		case *ast.GenDecl:
			doc = x.Doc
		}
		if doc == nil {
			continue
		}
		var dirs []*ast.Comment
		for _, cm := range doc.List {
			if strings.HasPrefix(cm.Text, "//go:") {
				dirs = append(dirs, cm)
			}
		}
		if len(dirs) > 0 {
			doc.List = dirs
			keep[doc] = true
		} else {
			switch x := d.(type) {
			case *ast.FuncDecl:
				x.Doc = nil
			case *ast.GenDecl:
				x.Doc = nil
			}
		}
	}
	var out []*ast.CommentGroup
	for _, g := range r.file.Comments {
		if g.End() < r.file.Package || keep[g] {
			out = append(out, g)
		}
	}
	r.file.Comments = out
	// drop comment references that would otherwise be printed via node fields
	ast.Inspect(r.file, func(n ast.Node) bool {
		switch x := n.(type) {
		case *ast.Field:
			x.Doc, x.Comment = nil, nil
		case *ast.ValueSpec:
			x.Doc, x.Comment = nil, nil
		case *ast.TypeSpec:
			x.Doc, x.Comment = nil, nil
		case *ast.ImportSpec:
			x.Doc, x.Comment = nil, nil
		}
		return true
	})
}

// ---------------------------------------------------------------- reset file

func writeReset(pkg *packages.Package, dst string, reinitFuncs []string) {
	sc := pkg.Types.Scope()
	has := func(name string) bool { return sc.Lookup(name) != nil }
	field := func(v, f string) bool {
		o := sc.Lookup(v)
		if o == nil {
			return false
		}
		st, ok := o.Type().Underlying().(*types.Struct)
		if !ok {
			return false
		}
		for i := 0; i < st.NumFields(); i++ {
			if st.Field(i).Name() == f {
				return true
			}
		}
		return false
	}
	var b strings.Builder
	b.WriteString("//go:build verif\n\npackage log\n\nimport \"github.com/go-spring/log/verifsim/simos\"\n\nvar _ = simos.Stdout\n\n")
	b.WriteString("// VerifReset returns the package-level state to what it is at process start,\n// so that many simulated cases can share one process.\nfunc VerifReset() {\n")
	for _, f := range reinitFuncs {
		b.WriteString("\t" + f + "()\n")
	}
	add := func(name, code string) {
		b.WriteString("\t" + code + "\n")
		rep.ResetVars = append(rep.ResetVars, name)
	}
	if has("tagRegistry") {
		keep := []string{}
		for _, n := range []string{"TagAppDef", "TagBizDef"} {
			if has(n) {
				keep = append(keep, n)
			}
		}
		b.WriteString("\tfor k, t := range tagRegistry {\n\t\tt.logger = nil\n")
		cond := "true"
		for _, k := range keep {
			cond += " && t != " + k
		}
		b.WriteString("\t\tif " + cond + " {\n\t\t\tdelete(tagRegistry, k)\n\t\t}\n\t}\n")
		rep.ResetVars = append(rep.ResetVars, "tagRegistry")
	}
	if has("loggerMap") {
		add("loggerMap", "clear(loggerMap)")
	}
	if field("global", "init") {
		add("global.init", "global.init = false")
	}
	if field("global", "loggers") {
		add("global.loggers", "global.loggers = nil")
	}
	if field("global", "appenders") {
		add("global.appenders", "global.appenders = nil")
	}
	if has("enableCaller") {
		add("enableCaller", "enableCaller = true")
	}
	if has("fastCaller") {
		add("fastCaller", "fastCaller = false")
	}
	if has("BufferCap") {
		add("BufferCap", "BufferCap.Store(10 * 1024)")
	}
	if has("frameCache") {
		add("frameCache", "frameCache.Clear()")
	}
	for _, n := range []string{"TimeNow", "StringFromContext", "FieldsFromContext"} {
		if has(n) {
			add(n, n+" = nil")
		}
	}
	b.WriteString("}\n")
	if field("global", "loggers") {
		b.WriteString("\n// VerifLoggers returns the loggers of the live configuration (read-only probe).\nfunc VerifLoggers() []Logger { return append([]Logger(nil), global.loggers...) }\n")
	} else {
		b.WriteString("\nfunc VerifLoggers() []Logger { return nil }\n")
	}
	if field("global", "appenders") {
		b.WriteString("\n// VerifAppenders returns the appenders of the live configuration (read-only probe).\nfunc VerifAppenders() []Appender { return append([]Appender(nil), global.appenders...) }\n")
	} else {
		b.WriteString("\nfunc VerifAppenders() []Appender { return nil }\n")
	}
	if err := os.WriteFile(filepath.Join(dst, "zz_verif_reset.go"), []byte(b.String()), 0o644); err != nil {
		fatal("%v", err)
	}
}
