#!/bin/bash
# runs every mutants/<PROP>-*.patch against its property's quick check; expects VIOLATION (exit 1)
cd /verif
budget=${1:-6}
for f in mutants/*.patch; do
  prop=$(basename $f | cut -d- -f1)
  out=$(tools/try_mutant.sh $f $prop $budget 2>&1)
  if echo "$out" | grep -q "^VIOLATION property=$prop"; then
     echo "CAUGHT  $(basename $f): $(echo "$out" | grep -m1 signature | cut -c1-150)"
  else
     echo "MISSED  $(basename $f): $(echo "$out" | tail -2 | tr '\n' ' ' | cut -c1-200)"
  fi
done
