#!/bin/bash
# usage: try_mutant.sh <patch> <prop> [budget]  — applies a patch to /repo, runs the quick check, restores /repo
patch=$(realpath "$1"); prop=$2; budget=${3:-8}
REPO=${VERIF_REPO:-/repo}
cd $REPO || exit 2
if ! git diff --quiet; then echo "repo dirty"; exit 2; fi
git apply "$patch" || { echo "patch does not apply"; exit 2; }
trap "git -C $REPO checkout -- . ; git -C $REPO clean -fdq" EXIT
rd=$(mktemp -d /dev/shm/verif-mutant-replays.XXXXXX)
cd /verif && VERIF_NO_EVIDENCE=1 VERIF_REPLAYDIR=$rd ./check run "$prop" --budget "$budget"
rc=$?
rm -rf "$rd"   # replays of deliberately broken trees are of no use once the verdict is printed
(exit $rc)
echo "EXIT=$?"
