#!/usr/bin/env python3
"""Regenerates MANIFEST.json from the table below (kept in one place so that it stays valid)."""
import json, os
V = os.path.dirname(os.path.dirname(os.path.abspath(__file__)))
TECH = "deterministic simulation: seeded token-passing scheduler over instrumented code (simgen) in a synctest bubble, simulated disk/clock/pool, rapid-generated scenarios + schedule tapes with shrinking, replay files"
CHECKS = {
 "C03": ("exploration", "3/C03", "Seeded search over interleavings of 2-64 simulated client goroutines logging through synchronous loggers onto the simulated console stream and disk (file, rolling file), with adversarial buffer pool (LIFO re-issue), chunked/slow sink reads and both layouts; oracle: every sink write is byte-identical to the stand-alone formatting of exactly one logged event, multiset equality, no duplicates. Decides schedule-dependent corruption that no single-goroutine test can reach; not a proof.",
         "sequentially consistent execution; simos models the kernel copying from the user buffer in chunks; reference formatting uses the library's own layout run alone after quiescence"),
 "C20": ("fault_enumeration", "3/C20", "Crash points: the simulated OS state (simos inodes, console stream) is monotone, so a SIGKILL/exit after an acknowledged call leaves at least the state at the acknowledgement. The check records the length of every sink at the scheduler step each log call returns and requires the call's complete line inside that prefix: every crash point after every acknowledgement of every explored schedule (1-4 client tasks, file/rolling/console, both layouts) is enumerated. A user-space buffer, deferred write or flush goroutine fails at the first acknowledgement.",
         "the kernel is modelled by simos (write(2) on O_APPEND is the durability point for process death); no real child process is killed"),
 "C13": ("exploration", "3/C13", "Seeded search over interleavings of 1-16 writer tasks with clock decisions placed just before/on/after interval boundaries (intervals 1 s..1 h cost nothing on the simulated clock), idle gaps, stop/start cycles, pre-existing files, three time zones; oracle after Stop: every payload exactly once, whole, in one file named <name>.<14 digits>; time order of writes against file name times; single-writer freshness; no truncation.",
         "simulated clock and disk; a write in flight when Close is called completes (os.File semantics); fault-free disk (faults are C19)"),
 "C19": ("fault_enumeration", "3/C19", "Fault sequences: directory renamed away/restored, EMFILE/ENOSPC/EACCES on open, placed by the seeded scheduler anywhere relative to 3-6 interval boundaries and the writes of 1-4 tasks; plus file/console/rolling targets that are closed, never opened or fail every write. Oracle: every call returns, no panic, nothing accepted is lost (all inodes incl. the renamed directory are searched; only writes the simulated OS itself refused may be absent), retry at the first boundary after faults stop, no creation storm within an interval, at most two descriptors, none after Stop. In addition every placement of one outage of each kind in a 5-write / 4-boundary sequential script is enumerated completely on every run (520 cases).",
         "fault kinds: directory renamed away/restored, EMFILE/ENOSPC/EACCES on open, ENOSPC on writes to held files (full or after a short count), EIO/ENOSPC on the console stream, backward clock jumps (robustness clauses only)"),
 "C14": ("exploration", "3/C14", "Generated directory populations (own rotated files, prefix-sharing foreign files, unrelated files, sub-directories) with mtimes on both sides of now - maxAge, maxAge 1..720 h, optional sibling .wf appender; the real asynchronous cleanup goroutine runs as a simulated task concurrently with writers and further rotations, optionally with ReadDir/Info/Remove failures. Oracle: survivors equal the expected set in both directions (fault-free) or deviate only toward not deleting (faults).",
         "mtimes keep a one-hour margin to the cut-off (equality corner not generated)"),
 "C04": ("exploration", "3/C04", "Seeded search over interleavings of 1-32 producers with the async worker (free, starved, slow or gated item by item), all three policies, bufferSize 100..400, events at enabled/disabled levels and raw writes, 1-3 references; exact counting oracle after Stop: delivered + GetDiscardCounter() = submitted at an enabled level, nothing twice, nothing to a wrong reference, Block => counter 0.",
         "sequentially consistent execution; non-atomic read-modify-write on fields is split by the instrumenter so lost updates manifest"),
 "C12": ("exploration", "3/C12", "1-8 writer tasks issue raw writes (empty, binary, multi-line, 64 KiB) through a named handle or a logger's Write while recycling one buffer that is overwritten right after Write returns; sync, async (free/starved/slow/gated worker), Console and File loggers built by Refresh or directly; oracle: every reference receives each writer's call-time snapshots once, in call order, byte-identical; n=len(b), err=nil; same handle for the same name; Refresh fails for an unconfigured requested name.",
         "at most 100 writes per case so that no overflow policy applies"),
 "C01": ("exploration", "3/C01", "Model refinement inside simulated runs: generated configurations (all logger kinds incl. async drained by the simulated scheduler and rolling files on the simulated disk; level-range grammar over built-in and user-registered levels; 1-4 references in any order, equal lower bounds included; random key spelling) and events through all 15 entry points at every level; per-reference delivered set must equal the reference model's set, exactly once, at the entry point's own level.",
         "literal '~MAX' upper bounds and three-part ranges are not generated (the statement leaves them open)"),
 "C02": ("exploration", "3/C02", "Generated tag sets sharing prefixes x literal/wildcard tag lists on up to 4 loggers plus optional root, with Go's map iteration order at all nine range-over-map sites of Refresh replaced by a seeded permutation (the quantifier names map order explicitly); oracle: reference longest-prefix matcher plus the four error rules, observed through which logger's recording appender receives an event logged through each registered tag.",
         "the wildcard '_*' (empty prefix) and wildcards containing a second '*' are not generated"),
 "C05": ("exploration", "3/C05", "Every logger kind (async with recording appenders at a chosen buffer occupancy 0..capacity+ and worker idle/slow/held at a scheduler-controlled gate; sync over file+console; Console, File, RollingFile sync/async with/without .wf and layout) built directly or by Refresh; Stop/Destroy issued after all producers returned. Termination is the scheduler's exact deadlock/livelock verdict in the fair phase (no wall clock); flush is checked at the very step Stop returns; descriptors come from the simulated handle table.",
         "premise of the property (no log call concurrent with Stop) is enforced by the workload"),
 "C06": ("exploration", "3/C06", "(A) sequential operation histories with the worker single-stepped at a gated appender, compared operation by operation with an executable bounded-FIFO model (delivered sequence, discard counter, blocked or not); (B) 2-5 concurrent producers near capacity: per-producer order, conservation, porcupine linearizability against the atomic bounded queue for Discard/Block (history stamped with scheduler step numbers; Unknown = inconclusive), policy-independent consequences for DiscardOldest.",
         "capacity in the model is the configured bufferSize; porcupine runs outside the bubble with a 2 s real-time budget per history"),
 "C10": ("exploration", "3/C10", "Counting hooks keyed by context identity over all 15 entry points, enabled/disabled levels, hooks set/unset, built-in logger before Refresh and sync/async loggers after, 1-4 concurrent client tasks, simulated clock moved between calls: exactly-once invocation iff enabled, lazy generators likewise, record carries hook results (time = hook value or a simulated-clock reading inside the call window; context string; context fields ahead of call fields).",
         "narrow by nature: most of the property is input-quantified; the simulator contributes the clock clause and async cross-talk"),
 "C16": ("exploration", "3/C16", "Operation histories up to length 8/12 over Refresh(valid A/B), Refresh(invalid early/late incl. start failures on the simulated disk), Destroy, log via tag, raw write via handle, register tag, obtain handle; after every operation the system runs to quiescence and is compared with a lifecycle state machine (panic-freedom, no blocking, routing to configured sinks or the built-in console, second Refresh rejected, Destroy idempotent, no descriptor left open).",
         "outcomes the statement leaves open between a failed Refresh and the next Destroy are not judged"),
 "C15": ("exploration", "3/C15", "Configuration resolution checked through behaviour of the simulated start-up: a probe plugin with one attribute of every supported kind is configured well-typed / omitted / via ${prop} (present or absent) / ill-typed or out of range, in camel/kebab/snake spelling, flat or inline; Refresh must fail exactly when the statement says and otherwise publish configured-or-default values; every registered logger and appender type is instantiated, used and destroyed on the simulated disk; random mutations of a valid configuration must never panic and whatever Refresh accepts must log and Destroy cleanly; start-up under injected open failures must be an error with no descriptor left. Every Refresh-based case of the other properties additionally renders its intent in a random spelling.",
         "narrow by nature (resolution is a function of the map); the simulator contributes start-up I/O, fault injection, async start/stop and map-order permutation"),
}
NA = [
 ("C07", "pure function Event -> bytes; no schedule, clock, fault or shared state for a simulator to own (buffer recycling, its only stateful neighbour, is C03)"),
 ("C08", "pure function (Event, width) -> bytes; input generation territory, not simulation"),
 ("C09", "pure function bytes -> bytes (string escaper); bounded-exhaustive enumeration territory"),
 ("C11", "function of the call site and two booleans; the frame cache is idempotent under any interleaving"),
 ("C17", "pure function string -> (map, error) (ANTLR parser); no concurrency, time or I/O"),
 ("C18", "pure predicate on a string plus a get-or-create map insert during single-threaded initialisation"),
]
PENDING = {}  # properties whose checks are still under construction: listed as not claimed yet
m = {
 "version": 1,
 "setup_cmd": "./check setup",
 "hooks": {
  "guard": "verif",
  "enable": "no hooks live in /repo: every check instruments a scratch copy of /repo's working tree with cmd/simgen (type-aware source rewrite adding scheduling points, simulated os/clock/pool) and builds it with -tags verif; the tag only guards files generated into that copy",
  "baseline_off_cmd": "cd /repo && go test -vet=off -count=1 ./...",
  "source_commits": [],
  "add_only": True,
 },
 "engines": [{"name": "verifsim", "path": "sim/ harness/ cmd/simgen check", "serves_properties": sorted(CHECKS), "kind_free_text": TECH}],
 "checks": [],
 "not_applicable": [{"property_id": k, "reason": r} for k, r in NA] + [{"property_id": k, "reason": r} for k, r in sorted(PENDING.items())],
 "notes": "exit 2 = machinery trouble (build, determinism guard, watchdog), never a verdict. known_findings.json lists fixed/known defects. Replay: ./check replay <file>.",
}
for pid in sorted(CHECKS):
    lvl, ref, text, note = CHECKS[pid]
    m["checks"].append({
     "property_id": pid, "quick_cmd": "./check run %s --tier quick" % pid, "thorough_cmd": "./check run %s --tier thorough" % pid,
     "evidence_file": "evidence/%s.json" % pid, "replay_cmd_template": "./check replay {path}", "engine": "verifsim",
     "level_claimed": {"category": lvl, "text": text, "design_ref": "DESIGN.md section " + ref},
     "level_note": note, "technique": TECH})
json.dump(m, open(os.path.join(V, "MANIFEST.json"), "w"), indent=1)
print("checks:", [c["property_id"] for c in m["checks"]])
