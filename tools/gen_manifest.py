#!/usr/bin/env python3
"""Regenerates MANIFEST.json from the table below (kept in one place so that it stays valid)."""
import json, os
V = os.path.dirname(os.path.dirname(os.path.abspath(__file__)))
TECH = "deterministic simulation: seeded token-passing scheduler over instrumented code (simgen) in a synctest bubble, simulated disk/clock/pool, rapid-generated scenarios + schedule tapes with shrinking, replay files"
CHECKS = {
 "C03": ("exploration", "3/C03", "Seeded search over interleavings of 2-64 simulated client goroutines logging through synchronous loggers onto the simulated console stream and disk (file, rolling file), with adversarial buffer pool (LIFO re-issue), chunked/slow sink reads and both layouts; oracle: every sink write is byte-identical to the stand-alone formatting of exactly one logged event, multiset equality, no duplicates. Decides schedule-dependent corruption that no single-goroutine test can reach; not a proof.",
         "sequentially consistent execution; simos models the kernel copying from the user buffer in chunks; reference formatting uses the library's own layout run alone after quiescence"),
}
NA = [
 ("C07", "pure function Event -> bytes; no schedule, clock, fault or shared state for a simulator to own (buffer recycling, its only stateful neighbour, is C03)"),
 ("C08", "pure function (Event, width) -> bytes; input generation territory, not simulation"),
 ("C09", "pure function bytes -> bytes (string escaper); bounded-exhaustive enumeration territory"),
 ("C11", "function of the call site and two booleans; the frame cache is idempotent under any interleaving"),
 ("C17", "pure function string -> (map, error) (ANTLR parser); no concurrency, time or I/O"),
 ("C18", "pure predicate on a string plus a get-or-create map insert during single-threaded initialisation"),
]
PENDING = {}  # properties whose checks are still under construction: listed as not claimed yet
m = {
 "version": 1,
 "setup_cmd": "./check setup",
 "hooks": {
  "guard": "verif",
  "enable": "no hooks live in /repo: every check instruments a scratch copy of /repo's working tree with cmd/simgen (type-aware source rewrite adding scheduling points, simulated os/clock/pool) and builds it with -tags verif; the tag only guards files generated into that copy",
  "baseline_off_cmd": "cd /repo && go test -vet=off -count=1 ./...",
  "source_commits": [],
  "add_only": True,
 },
 "engines": [{"name": "verifsim", "path": "sim/ harness/ cmd/simgen check", "serves_properties": sorted(CHECKS), "kind_free_text": TECH}],
 "checks": [],
 "not_applicable": [{"property_id": k, "reason": r} for k, r in NA] + [{"property_id": k, "reason": r} for k, r in sorted(PENDING.items())],
 "notes": "exit 2 = machinery trouble (build, determinism guard, watchdog), never a verdict. known_findings.json lists fixed/known defects. Replay: ./check replay <file>.",
}
for pid in sorted(CHECKS):
    lvl, ref, text, note = CHECKS[pid]
    m["checks"].append({
     "property_id": pid, "quick_cmd": "./check run %s --tier quick" % pid, "thorough_cmd": "./check run %s --tier thorough" % pid,
     "evidence_file": "evidence/%s.json" % pid, "replay_cmd_template": "./check replay {path}", "engine": "verifsim",
     "level_claimed": {"category": lvl, "text": text, "design_ref": "DESIGN.md section " + ref},
     "level_note": note, "technique": TECH})
json.dump(m, open(os.path.join(V, "MANIFEST.json"), "w"), indent=1)
print("checks:", [c["property_id"] for c in m["checks"]])
