#!/bin/bash
# regression over everything kept: every seeded/ and mutants/ patch must be caught by its property's quick
# check, every benign/ patch must pass every check, the unchanged tree must pass every check.
cd /verif
budget=${1:-5}
fail=0
for d in seeded/*/; do
  id=$(basename $d); prop=${id%%-*}
  if grep -q not_judged_by_design $d/meta.json; then echo "SKIP   $id (not judged by design, see meta.json)"; continue; fi
  if grep -q open_gap $d/meta.json; then echo "OPEN   $id (known open gap, see meta.json)"; continue; fi
  other=$(python3 -c "import json,sys; print(json.load(open('$d/meta.json')).get('check_property',''))" 2>/dev/null)
  if [ -n "$other" ]; then prop=$other; fi
  out=$(tools/try_mutant.sh $d/patch.diff $prop $budget 2>&1)
  if echo "$out" | grep -q "^VIOLATION property=$prop"; then echo "CAUGHT $id $(echo "$out" | grep -m1 signature | cut -c1-120)"; else echo "MISSED $id: $(echo "$out" | tail -2 | tr '\n' ' ' | cut -c1-200)"; fail=1; fi
done
for f in mutants/*.patch; do
  prop=$(basename $f | cut -d- -f1)
  out=$(tools/try_mutant.sh $f $prop $budget 2>&1)
  if echo "$out" | grep -q "^VIOLATION property=$prop"; then echo "CAUGHT $(basename $f)"; else echo "MISSED $(basename $f): $(echo "$out" | tail -2 | tr '\n' ' ' | cut -c1-200)"; fail=1; fi
done
if [ "$2" = "benign" ]; then
for d in benign/*/; do
  for prop in C01 C02 C03 C04 C05 C06 C10 C12 C13 C14 C15 C16 C19 C20; do
    out=$(tools/try_mutant.sh $d/patch.diff $prop 3 2>&1)
    if echo "$out" | grep -q "VIOLATION\|CHECK-ERROR"; then echo "FALSE-ALARM-OR-ERROR $(basename $d) $prop: $(echo "$out" | grep -m1 'signature\|CHECK-ERROR' | cut -c1-160)"; fail=1; fi
  done
  echo "BENIGN-OK $(basename $d)"
done
fi
exit $fail
