#!/usr/bin/env python3
"""Run /repo's own test suite (guard off) and compare with /root/.vp/BASELINE.json."""
import json, subprocess, sys, os
repo = sys.argv[1] if len(sys.argv) > 1 else "/repo"
base = json.load(open("/root/.vp/BASELINE.json"))
p = subprocess.run(["go", "test", "-json", "-vet=off", "-count=1", "-timeout", "25m", "./..."], cwd=repo, text=True, stdout=subprocess.PIPE, stderr=subprocess.STDOUT)
passed, failed = set(), set()
for line in p.stdout.splitlines():
    try:
        j = json.loads(line)
    except Exception:
        continue
    if j.get("Test") and j.get("Action") in ("pass", "fail"):
        (passed if j["Action"] == "pass" else failed).add(j["Package"] + "::" + j["Test"])
missing = [t for t in base["stable_pass"] if t not in passed]
print("passed=%d failed=%d baseline=%d missing_from_pass=%d" % (len(passed), len(failed), len(base["stable_pass"]), len(missing)))
for t in missing: print("  NOT PASSING:", t)
for t in sorted(failed):
    if t not in base.get("always_fail", []): print("  NEW FAIL:", t)
sys.exit(1 if missing else 0)
