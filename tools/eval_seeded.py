#!/usr/bin/env python3
"""eval_seeded.py <PROP> <agent_out_dir> [budget] [tag]
For every mN under the sub-agent's output directory: confirm in a scratch worktree that the patch applies, builds,
keeps /repo's suite at baseline, and that the demonstration fails with it and passes without; then apply it to /repo,
run the property's quick check, undo. Keeps confirmed ones under /verif/seeded/<PROP>-mN/ with meta.json."""
import json, os, re, shutil, subprocess, sys
prop, src = sys.argv[1], sys.argv[2]
budget = sys.argv[3] if len(sys.argv) > 3 else "8"
tag = sys.argv[4] if len(sys.argv) > 4 else ""
V = "/verif"
def sh(cmd, cwd=None, timeout=1800):
    p = subprocess.run(cmd, shell=True, cwd=cwd, text=True, stdout=subprocess.PIPE, stderr=subprocess.STDOUT, timeout=timeout)
    return p.returncode, p.stdout
wt = "/tmp/mine-" + prop
sh("git -C /repo worktree remove --force %s" % wt)
rc, out = sh("git -C /repo worktree add -q --detach %s HEAD" % wt)
assert rc == 0, out
try:
    for m in sorted(os.listdir(src)):
        d = os.path.join(src, m)
        patch = os.path.join(d, "patch.diff")
        if not os.path.isfile(patch):
            continue
        demo = os.path.join(d, "demo_test.go")
        tests = re.findall(r"^func (Test\w+)\(", open(demo).read(), re.M) if os.path.exists(demo) else []
        runpat = "^(" + "|".join(tests) + ")$"
        meta = {"property": prop, "mutant": m, "source": "independent sub-agent (saw only the property text and a scratch worktree)"}
        sh("git checkout -q -- . && git clean -fdq", cwd=wt)
        # demo on clean tree
        shutil.copy(demo, os.path.join(wt, "zz_demo_test.go"))
        rc_clean, out_clean = sh("go test -vet=off -count=1 -run '%s' ." % runpat, cwd=wt)
        os.remove(os.path.join(wt, "zz_demo_test.go"))
        rc, out = sh("git apply %s" % patch, cwd=wt)
        meta["patch_applies"] = rc == 0
        if rc != 0:
            print(m, "PATCH DOES NOT APPLY", out[:300]); continue
        rc, out = sh("go build ./...", cwd=wt)
        meta["builds"] = rc == 0
        rc_base, out_base = sh("%s/tools/baseline.py %s" % (V, wt))
        meta["suite_at_baseline_with_patch"] = rc_base == 0
        shutil.copy(demo, os.path.join(wt, "zz_demo_test.go"))
        rc_mut, out_mut = sh("go test -vet=off -count=1 -run '%s' ." % runpat, cwd=wt)
        if rc_mut == 0:  # probabilistic demos: try a few more times, also with -race
            for extra in ("", "-race", "-race"):
                rc_mut, out_mut = sh("go test -vet=off -count=1 %s -run '%s' ." % (extra, runpat), cwd=wt)
                if rc_mut != 0: break
        os.remove(os.path.join(wt, "zz_demo_test.go"))
        meta["demo_passes_on_clean_tree"] = rc_clean == 0
        meta["demo_fails_with_patch"] = rc_mut != 0
        sh("git checkout -q -- . && git clean -fdq", cwd=wt)
        confirmed = meta["builds"] and meta["suite_at_baseline_with_patch"] and meta["demo_passes_on_clean_tree"] and meta["demo_fails_with_patch"]
        # my check
        rc, out = sh("%s/tools/try_mutant.sh %s %s %s" % (V, patch, prop, budget))
        caught = ("VIOLATION property=%s" % prop) in out
        sigs = re.findall(r"signature: (.*)", out)
        meta["check_cmd"] = "./check run %s --budget %s (after git -C /repo apply patch.diff; undone afterwards)" % (prop, budget)
        meta["caught_by_quick_check"] = caught
        meta["signatures"] = sigs[:5]
        meta["check_summary"] = (re.findall(r"^check .*", out, re.M) or [""])[0]
        meta["confirmed"] = confirmed
        readme = os.path.join(d, "README.md")
        meta["needs_to_manifest"] = ""
        if os.path.exists(readme):
            txt = open(readme).read()
            mm = re.search(r"(?is)(needs?[^\n]*manifest.*?)(\n#|\Z)", txt)
            meta["needs_to_manifest"] = (mm.group(1) if mm else txt)[:1200]
        print("%s %s: confirmed=%s (applies=%s builds=%s suite=%s demo_clean_pass=%s demo_mut_fail=%s) caught=%s %s" % (
            prop, m, confirmed, meta["patch_applies"], meta["builds"], meta["suite_at_baseline_with_patch"], meta["demo_passes_on_clean_tree"], meta["demo_fails_with_patch"], caught, sigs[:2]))
        if not caught:
            print("   check output tail:", out[-600:].replace("\n", " | "))
        if not confirmed:
            print("   baseline:", out_base[-300:].replace("\n", " | "), " demo(clean):", out_clean[-300:].replace("\n", " | "))
        if confirmed:
            dst = os.path.join(V, "seeded", "%s-%s%s" % (prop, tag, m))
            os.makedirs(dst, exist_ok=True)
            shutil.copy(patch, os.path.join(dst, "patch.diff"))
            shutil.copy(demo, os.path.join(dst, "demo_test.go.txt"))
            if os.path.exists(readme): shutil.copy(readme, os.path.join(dst, "README.md"))
            json.dump(meta, open(os.path.join(dst, "meta.json"), "w"), indent=1)
finally:
    sh("git -C /repo worktree remove --force %s" % wt)
    sh("git -C /repo checkout -- . ; git -C /repo clean -fdq")
