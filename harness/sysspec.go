package harness

import (
	"math"
	"fmt"
	"sort"
	"strconv"
	"strings"

	log "github.com/go-spring/log"
	"pgregory.net/rapid"
)

// ---------------------------------------------------------------- intended system

type RefSpec struct {
	Ref   string `json:"ref"`
	Level string `json:"level,omitempty"` // "" = not written
}

type AppSpec struct {
	Name     string `json:"name"`
	Type     string `json:"type"` // Console, File, RollingFile, Rec, Discard
	Layout   string `json:"layout,omitempty"`
	Width    int    `json:"width,omitempty"` // fileLineLength, 0 = not written (default 48)
	FileDir  string `json:"file_dir,omitempty"`
	FileName string `json:"file_name,omitempty"`
	Rotation string `json:"rotation,omitempty"`
	MaxAge   int    `json:"max_age,omitempty"`
	Slow     int    `json:"slow,omitempty"`
	StartLog bool   `json:"start_log,omitempty"` // Rec: logs through a tag from inside Start
}

type LogSpec struct {
	Name       string    `json:"name"`
	Type       string    `json:"type"` // Logger, AsyncLogger, Console, File, RollingFile, Discard
	RecName    string    `json:"rec_name,omitempty"` // Type RecLogger: the recorder it writes to
	Tags       []string  `json:"tags,omitempty"`
	Level      string    `json:"level,omitempty"`
	Layout     string    `json:"layout,omitempty"`
	Width      int       `json:"width,omitempty"`
	Refs       []RefSpec `json:"refs,omitempty"`
	BufferSize int       `json:"buffer_size,omitempty"` // 0 = not written (default 10000)
	Policy     string    `json:"policy,omitempty"`      // "" = not written (default Discard)
	FileDir    string    `json:"file_dir,omitempty"`
	FileName   string    `json:"file_name,omitempty"`
	Rotation   string    `json:"rotation,omitempty"`
	MaxAge     int       `json:"max_age,omitempty"`
	Separate   bool      `json:"separate,omitempty"`
	Async      bool      `json:"async,omitempty"`
}

// Style is the spelling in which a SysSpec is rendered to the configuration map.
type Style struct {
	KeyCase  int    `json:"key_case"` // 0 camelCase, 1 kebab-case, 2 snake_case
	Inline   uint32 `json:"inline"`   // bit i: item i (appenders, then loggers) written as 'name!' expression
	Indirect uint32 `json:"indirect"` // bit i: i-th eligible attribute written as ${prop}
	Indexed  bool   `json:"indexed"`  // single appenderRef written as appenderRef[0]
	Explicit bool   `json:"explicit"` // write attributes that equal their default
}

type SysSpec struct {
	Props map[string]string `json:"props,omitempty"` // bufferCap, enableCaller, fastCaller
	Apps  []AppSpec         `json:"appenders"`
	Logs  []LogSpec         `json:"loggers"`
	Style Style             `json:"style"`
}

func genStyle(rt *rapid.T) Style {
	return Style{
		KeyCase:  rapid.IntRange(0, 2).Draw(rt, "key_case"),
		Inline:   rapid.Uint32().Draw(rt, "inline"),
		Indirect: rapid.Uint32().Draw(rt, "indirect"),
		Indexed:  rapid.Bool().Draw(rt, "indexed"),
		Explicit: rapid.Bool().Draw(rt, "explicit"),
	}
}

type kv struct{ k, v string }

func caseKey(k string, mode int) string {
	if mode == 0 {
		return k
	}
	var b strings.Builder
	for i, c := range k {
		if c >= 'A' && c <= 'Z' && i > 0 {
			if mode == 1 {
				b.WriteByte('-')
			} else {
				b.WriteByte('_')
			}
			b.WriteRune(c + ('a' - 'A'))
		} else {
			b.WriteRune(c)
		}
	}
	return b.String()
}

func layoutKVs(prefix, layout string, width int, explicit bool) []kv {
	var out []kv
	if layout != "" {
		out = append(out, kv{prefix + "layout.type", layout})
	}
	if width != 0 {
		if layout == "" {
			// a width needs a layout element to live in
			out = append(out, kv{prefix + "layout.type", "TextLayout"})
		}
		out = append(out, kv{prefix + "layout.fileLineLength", strconv.Itoa(width)})
	} else if explicit && layout != "" {
		out = append(out, kv{prefix + "layout.fileLineLength", "48"})
	}
	return out
}

func (a AppSpec) kvs(explicit bool) []kv {
	out := []kv{{"type", a.Type}}
	switch a.Type {
	case "Console":
		out = append(out, layoutKVs("", a.Layout, a.Width, explicit)...)
	case "File":
		out = append(out, layoutKVs("", a.Layout, a.Width, explicit)...)
		if a.FileDir != "" {
			out = append(out, kv{"fileDir", a.FileDir})
		}
		out = append(out, kv{"fileName", a.FileName})
	case "RollingFile":
		out = append(out, layoutKVs("", a.Layout, a.Width, explicit)...)
		if a.FileDir != "" {
			out = append(out, kv{"fileDir", a.FileDir})
		}
		out = append(out, kv{"fileName", a.FileName}, kv{"rotation", a.Rotation}, kv{"maxAge", strconv.Itoa(a.MaxAge)})
	case "Rec":
		if a.Slow > 0 || explicit {
			out = append(out, kv{"slow", strconv.Itoa(a.Slow)})
		}
		if a.StartLog {
			out = append(out, kv{"startLog", "true"})
		}
	}
	return out
}

func (l LogSpec) kvs(st Style) []kv {
	out := []kv{{"type", l.Type}}
	if len(l.Tags) > 0 {
		out = append(out, kv{"tags", strings.Join(l.Tags, ",")})
	}
	if l.Level != "" {
		out = append(out, kv{"level", l.Level})
	} else if st.Explicit {
		out = append(out, kv{"level", ""})
	}
	out = append(out, layoutKVs("", l.Layout, l.Width, false)...)
	switch l.Type {
	case "RecLogger":
		out = append(out, kv{"recName", l.RecName})
	case "Logger", "AsyncLogger":
		for i, r := range l.Refs {
			p := fmt.Sprintf("appenderRef[%d].", i)
			if len(l.Refs) == 1 && !st.Indexed {
				p = "appenderRef."
			}
			out = append(out, kv{p + "ref", r.Ref})
			if r.Level != "" {
				out = append(out, kv{p + "level", r.Level})
			}
		}
	}
	if l.Type == "AsyncLogger" || (l.Type == "RollingFile" && l.Async) {
		if l.BufferSize != 0 {
			out = append(out, kv{"bufferSize", strconv.Itoa(l.BufferSize)})
		} else if st.Explicit {
			out = append(out, kv{"bufferSize", "10000"})
		}
		if l.Policy != "" {
			out = append(out, kv{"bufferFullPolicy", l.Policy})
		} else if st.Explicit {
			out = append(out, kv{"bufferFullPolicy", "Discard"})
		}
	}
	switch l.Type {
	case "File":
		if l.FileDir != "" {
			out = append(out, kv{"fileDir", l.FileDir})
		}
		out = append(out, kv{"fileName", l.FileName})
	case "RollingFile":
		if l.FileDir != "" {
			out = append(out, kv{"fileDir", l.FileDir})
		}
		if l.FileName != "" {
			out = append(out, kv{"fileName", l.FileName})
		}
		out = append(out, kv{"rotation", l.Rotation})
		if l.MaxAge != 0 {
			out = append(out, kv{"maxAge", strconv.Itoa(l.MaxAge)})
		}
		if l.Separate || st.Explicit {
			out = append(out, kv{"separate", strconv.FormatBool(l.Separate)})
		}
		if l.Async || st.Explicit {
			out = append(out, kv{"async", strconv.FormatBool(l.Async)})
		}
	}
	return out
}

func exprValue(v string) string {
	if v != "" {
		if _, err := strconv.Atoi(v); err == nil {
			return v
		}
	}
	return strconv.Quote(v)
}

// Render produces the configuration map for Refresh in the spec's style.
func (s *SysSpec) Render() map[string]string {
	m := map[string]string{}
	st := s.Style
	for k, v := range s.Props {
		m[caseKey(k, st.KeyCase)] = v
	}
	item := 0
	indirect := 0
	emit := func(section, name string, kvs []kv) {
		inline := st.Inline&(1<<uint(item%32)) != 0
		item++
		// ${} indirection for plain attribute values
		for i := range kvs {
			k := kvs[i].k
			if k == "type" || strings.HasSuffix(k, ".type") || strings.HasSuffix(k, ".ref") {
				continue
			}
			if st.Indirect&(1<<uint(indirect%32)) != 0 {
				prop := fmt.Sprintf("p%s%s%d", section[:1], name, i) // per section: an appender and a logger may share a name
				m[caseKey(prop, st.KeyCase)] = kvs[i].v
				kvs[i].v = "${" + caseKey(prop, st.KeyCase) + "}"
			}
			indirect++
		}
		if inline {
			typ := ""
			var parts []string
			kc := st.KeyCase
			if kc == 1 {
				kc = 2 // kebab is not an identifier in the expression grammar
			}
			for _, e := range kvs {
				if e.k == "type" {
					typ = e.v
					continue
				}
				parts = append(parts, caseKey(e.k, kc)+" = "+exprValue(e.v))
			}
			m[section+"."+name+"!"] = typ + "{" + strings.Join(parts, ", ") + "}"
			return
		}
		for _, e := range kvs {
			m[section+"."+name+"."+caseKey(e.k, st.KeyCase)] = e.v
		}
	}
	for _, a := range s.Apps {
		emit("appender", a.Name, a.kvs(st.Explicit))
	}
	for _, l := range s.Logs {
		emit("logger", l.Name, l.kvs(st))
	}
	return m
}

// ---------------------------------------------------------------- level model

// Levels known to the harness: built-in plus custom ones registered once.
var levelCodes = map[string]int32{
	"NONE": 0, "TRACE": 100, "DEBUG": 200, "INFO": 300, "WARN": 400, "ERROR": 500, "PANIC": 600, "FATAL": 700, "MAX": 999,
	"VERBOSE": 50, "NOTICE": 350, "AUDIT": 450, "CRIT": 650, "TOP": 998,
	// user-registered corner cases: the lowest code an int32 can hold (a log4j-style "ALL"),
	// and second names for codes that already have one (a built-in's and a custom level's)
	"ALL": math.MinInt32, "NOTE": 300, "REVIEW": 450,
	// a name that was registered twice: the second registration (code 444) is the one that counts
	"SHIFTY": 444,
}

var customLevels = map[string]log.Level{}

func init() {
	log.RegisterLevel(333, "shifty")
	for _, n := range []string{"VERBOSE", "NOTICE", "AUDIT", "CRIT", "TOP", "ALL", "NOTE", "REVIEW", "SHIFTY"} {
		customLevels[n] = log.RegisterLevel(levelCodes[n], strings.ToLower(n))
	}
}

var levelNames = func() []string {
	var out []string
	for k := range levelCodes {
		out = append(out, k)
	}
	sort.Slice(out, func(i, j int) bool {
		if levelCodes[out[i]] != levelCodes[out[j]] {
			return levelCodes[out[i]] < levelCodes[out[j]]
		}
		return out[i] < out[j]
	})
	return out
}()

func levelByName(n string) log.Level {
	switch strings.ToUpper(n) {
	case "NONE":
		return log.NoneLevel
	case "TRACE":
		return log.TraceLevel
	case "DEBUG":
		return log.DebugLevel
	case "INFO":
		return log.InfoLevel
	case "WARN":
		return log.WarnLevel
	case "ERROR":
		return log.ErrorLevel
	case "PANIC":
		return log.PanicLevel
	case "FATAL":
		return log.FatalLevel
	case "MAX":
		return log.MaxLevel
	}
	return customLevels[strings.ToUpper(n)]
}

// mRange is a half-open range of level codes plus whether the upper bound was explicit.
type mRange struct {
	Min, Max int32
	Explicit bool
}

func (r mRange) has(code int32) bool { return code >= r.Min && code < r.Max }

// modelRange parses a level-range string as the property statement defines it.
func modelRange(s string) (mRange, bool) {
	s = strings.TrimSpace(s)
	if s == "" {
		return mRange{0, 999, false}, true
	}
	parts := strings.Split(s, "~")
	if len(parts) > 2 {
		return mRange{}, false
	}
	lo, ok := levelCodes[strings.ToUpper(parts[0])]
	if !ok {
		return mRange{}, false
	}
	r := mRange{Min: lo, Max: 999}
	if len(parts) == 2 {
		hi, ok := levelCodes[strings.ToUpper(parts[1])]
		if !ok {
			return mRange{}, false
		}
		r.Max, r.Explicit = hi, true
	}
	return r, true
}

// modelRefRanges computes the effective range of every reference of a logger:
// explicit upper bounds stand; an open-ended reference ends at the next-higher
// lower bound among the same logger's references.
func modelRefRanges(refs []RefSpec) []mRange {
	rs := make([]mRange, len(refs))
	for i, r := range refs {
		rs[i], _ = modelRange(r.Level)
	}
	for i := range rs {
		if rs[i].Explicit {
			continue
		}
		next := int32(999)
		for j := range rs {
			if rs[j].Min > rs[i].Min && rs[j].Min < next {
				next = rs[j].Min
			}
		}
		rs[i].Max = next
	}
	return rs
}

// ---------------------------------------------------------------- tag model

// modelResolve returns the index of the logger serving tag (-1 = root) given
// the literal and wildcard tag lists of each non-root logger.
func modelResolve(tag string, lists [][]string) int {
	for i, l := range lists {
		for _, t := range l {
			if t == tag {
				return i
			}
		}
	}
	best, bestLen := -1, -1
	for i, l := range lists {
		for _, t := range l {
			if !strings.HasSuffix(t, "_*") {
				continue
			}
			p := strings.TrimSuffix(t, "_*")
			// proper underscore-delimited prefix
			if len(p) < len(tag) && strings.HasPrefix(tag, p+"_") && len(p) > bestLen {
				best, bestLen = i, len(p)
			}
		}
	}
	return best
}
