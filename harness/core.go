// Package harness holds the simulated workloads, reference models and oracles
// for the go-spring/log properties. It is compiled against the instrumented
// scratch copy of the library produced by cmd/simgen.
package harness

import (
	_ "time/tzdata"
	"encoding/json"
	"fmt"
	iofs "io/fs"
	"runtime/debug"
	"sort"
	"strings"
	"testing"
	"testing/synctest"
	"time"

	log "github.com/go-spring/log"
	"github.com/go-spring/log/verifsim"
	"github.com/go-spring/log/verifsim/simos"
	"pgregory.net/rapid"
)

// Violation is one failed oracle clause.
type Violation struct {
	Clause    string `json:"clause"`    // short clause id, e.g. "line-not-reference"
	Signature string `json:"signature"` // clause + structural discriminator: identity for known findings
	Detail    string `json:"detail"`
}

// Outcome is what one simulated case produced.
type Outcome struct {
	Violations []Violation        `json:"violations,omitempty"`
	Steps      int                `json:"steps"`
	Switches   int                `json:"switches"`
	Preempts   int                `json:"preemptions"`
	EnvActs    int                `json:"env_actions"`
	TapeUsed   int                `json:"tape_used"`
	SimTimeMs  int64              `json:"sim_time_ms"`
	TraceHash  uint64             `json:"trace_hash"`
	SwHash     uint64             `json:"switch_hash"`
	Probes     map[string]int64   `json:"probes,omitempty"`
	Faults     map[string]int     `json:"faults_fired,omitempty"`
	States     map[uint64]struct{} `json:"-"`
	Leaked     int                `json:"leaked"`
	Reached    bool               `json:"reached"` // the property's own reach probe fired
	ScnDistinct bool              `json:"-"`       // distinctness also counts the scenario (configuration-quantified properties)
	Trace      []verifsim.Event   `json:"trace,omitempty"`
	Notes      []string           `json:"notes,omitempty"`
}

func (o *Outcome) violate(clause, sig, format string, a ...any) {
	if len(o.Violations) >= 8 {
		return
	}
	o.Violations = append(o.Violations, Violation{Clause: clause, Signature: sig, Detail: fmt.Sprintf(format, a...)})
}

// Property is one claimed property: a scenario generator plus a simulated run
// with its oracle.
type Property interface {
	ID() string
	// Gen draws a scenario (JSON-serialisable value). Called outside the bubble.
	Gen(rt *rapid.T, thorough bool) any
	// Decode parses a scenario from a replay file.
	Decode(raw json.RawMessage) (any, error)
	// Run executes the scenario inside a bubble and judges it.
	Run(x *Exec, scn any)
	// Rule describes generation and the non-triviality rule for the evidence.
	Rule() string
	// Level is the MANIFEST level category.
	Level() string
}

var registry = map[string]Property{}

func register(p Property) { registry[p.ID()] = p }

// Exec is the per-case execution context handed to Property.Run.
type Exec struct {
	T    *testing.T
	Sim  *verifsim.Sim
	FS   *simos.FS
	Out  *Outcome
	Cfg  verifsim.Config
	Keep bool
	// After holds judgements that must run outside the bubble (real-time
	// timeouts, CPU-heavy checkers); RunCase runs them once the bubble is gone.
	After []func(o *Outcome)
}

// SimKnobs are the scheduler-level knobs every scenario carries.
type SimKnobs struct {
	PoolMode int      `json:"pool_mode"`
	MapSeed  uint64   `json:"map_seed"`
	Starve   []string `json:"starve,omitempty"`
	OffsetMs int64    `json:"offset_ms"`
	Chunks   int      `json:"write_chunks"`
	Delay    int      `json:"write_delay"`
	TZ       int      `json:"tz"` // 0 UTC, 1 +05:30, 2 -08:00, 3 America/New_York (daylight saving)
	Watch    []string `json:"watch,omitempty"`
	Stdio    int      `json:"stdio,omitempty"` // what stdout is connected to: 0 terminal, 1 pipe, 2 regular file
	Strategy int      `json:"strategy,omitempty"` // 0 tape picks, 1 PCT-style priorities with change points
	MaxSteps int      `json:"max_steps,omitempty"`      // step cap per scheduling phase (0 = 200000); very long runs raise it
	AutoAdvS int      `json:"auto_advance_s,omitempty"` // simulated seconds a phase may let pass on its own while a harness task waits (0 = 5)
	Dense    bool     `json:"dense,omitempty"`    // the scenario asks for a scheduling choice at every step (contention presets)
}

func genKnobs(rt *rapid.T) SimKnobs {
	k := SimKnobs{}
	k.PoolMode = rapid.SampledFrom([]int{0, 0, 0, 1, 2, 3}).Draw(rt, "pool_mode")
	if rapid.Bool().Draw(rt, "map_perm") {
		k.MapSeed = rapid.Uint64Range(1, 1<<20).Draw(rt, "map_seed")
	}
	k.Chunks = rapid.SampledFrom([]int{1, 1, 2, 3}).Draw(rt, "chunks")
	k.Delay = rapid.SampledFrom([]int{0, 0, 1, 3}).Draw(rt, "delay")
	k.TZ = rapid.IntRange(0, 2).Draw(rt, "tz")
	k.Stdio = rapid.SampledFrom([]int{0, 1, 1, 2}).Draw(rt, "stdio")
	k.Strategy = rapid.SampledFrom([]int{0, 0, 0, 1}).Draw(rt, "strategy")
	return k
}

// genTape draws the scheduling tape: mostly zeros (keep running the current
// task), with a per-run density of non-zero entries (swarm style).
func genTape(rt *rapid.T, maxLen int, dense bool) []int {
	density := rapid.SampledFrom([]int{0, 2, 4, 8, 16, 40, 64}).Draw(rt, "tape_density") // per 64; 64 = a scheduling choice at every step
	if dense {
		density = 64
		maxLen *= 4
	}
	n := rapid.IntRange(0, maxLen).Draw(rt, "tape_len")
	tape := make([]int, n)
	if density == 0 {
		return tape
	}
	for i := range tape {
		if rapid.IntRange(0, 63).Draw(rt, "sw") < density {
			tape[i] = rapid.IntRange(1, 12).Draw(rt, "pick")
		}
	}
	return tape
}

var zones = []*time.Location{time.UTC, time.FixedZone("IST", 5*3600+1800), time.FixedZone("PST", -8*3600), dstZone()}

// dstZone is a zone whose UTC offset changes twice a year (zone 3: only scenarios that ask for
// it use it). The simulated clock starts on 2000-01-01; New York left standard time on
// 2000-04-02 07:00 UTC and returned to it on 2000-10-29 06:00 UTC.
func dstZone() *time.Location {
	loc, err := time.LoadLocation("America/New_York") // from the embedded time/tzdata if the system has none
	if err != nil {
		panic("harness: no time zone database: " + err.Error())
	}
	return loc
}

// firstHarnessPanic keeps the first machinery panic of the process: rapid's
// shrinking would otherwise bury it under follow-up failures.
var firstHarnessPanic string
var lastScenario string

// harnessPanic marks a panic raised by the harness itself (not by the code
// under test): it is reported as machinery trouble (exit 2), never a verdict.
type harnessPanic struct {
	val   any
	stack string
}

// RunCase executes one case of a property inside a fresh synctest bubble.
func RunCase(t *testing.T, p Property, scn any, knobs SimKnobs, tape []int, keep bool) (out *Outcome) {
	out = &Outcome{Probes: map[string]int64{}, Faults: map[string]int{}, States: map[uint64]struct{}{}}
	savedLocal := time.Local
	defer func() { time.Local = savedLocal }()
	var hp *harnessPanic
	var after []func(o *Outcome)
	func() {
		defer func() {
			// end-of-bubble "deadlock" panic caused by leaked, natively blocked tasks
			if r := recover(); r != nil {
				s := fmt.Sprint(r)
				if strings.Contains(s, "main bubble goroutine has exited but blocked goroutines remain") {
					// leaked, natively blocked tasks of a finished case: harmless
					out.Notes = append(out.Notes, "end-of-bubble: "+s)
					return
				}
				// anything else (e.g. the root goroutine itself blocked) is machinery trouble
				verifsim.Deactivate()
				hp = &harnessPanic{val: r, stack: string(debug.Stack())}
			}
		}()
		synctest.Test(t, func(t *testing.T) {
			defer func() {
				if r := recover(); r != nil {
					hp = &harnessPanic{val: r, stack: string(debug.Stack())}
					if s := verifsim.Active(); s != nil {
						s.Close()
					}
				}
			}()
			time.Local = zones[knobs.TZ%len(zones)]
			fs := simos.Reset()
			fs.SetWriteShape(knobs.Chunks, knobs.Delay)
			fs.StdioMode = []iofs.FileMode{iofs.ModeCharDevice, iofs.ModeNamedPipe, 0}[knobs.Stdio%3]
			// after the simulated OS is in place: package-level initialisers (log.Stdout) are
			// evaluated again against it
			log.VerifReset()
			resetRecs()
			cfg := verifsim.Config{
				Tape: tape, PoolMode: knobs.PoolMode, MapSeed: knobs.MapSeed, Starve: knobs.Starve,
				Offset: time.Duration(knobs.OffsetMs) * time.Millisecond, KeepTrace: keep, Watch: knobs.Watch, Strategy: knobs.Strategy,
			}
			cfg.AutoAdvance = time.Duration(knobs.AutoAdvS) * time.Second
			cfg.MaxSteps = knobs.MaxSteps
			cfg.CycleTape = knobs.Dense
			if verifsim.Active() != nil {
				verifsim.Deactivate()
				panic(fmt.Sprintf("harness: previous case left its simulation active; previous scenario: %s", lastScenario))
			}
			if b, err := json.Marshal(scn); err == nil {
				lastScenario = string(b)
			}
			sim := verifsim.New(cfg)
			x := &Exec{T: t, Sim: sim, FS: fs, Out: out, Cfg: cfg, Keep: keep}
			t0 := time.Now()
			p.Run(x, scn)
			after = x.After
			out.Leaked = sim.Close()
			out.Steps, out.Switches, out.Preempts, out.EnvActs = sim.Steps(), sim.Switches(), sim.Preemptions(), sim.EnvActions()
			out.TapeUsed = sim.TapeUsed()
			out.TraceHash, out.SwHash = sim.TraceHash(), sim.SwitchHash()
			out.SimTimeMs = time.Since(t0).Milliseconds()
			for k, v := range sim.Probes {
				out.Probes[k] += v
			}
			for k := range sim.States {
				out.States[k] = struct{}{}
			}
			_, fired := fs.Counters()
			for k, v := range fired {
				out.Faults[k] += v
			}
			if keep {
				out.Trace = sim.Trace()
			}
			// leave no reference from package state into this bubble
			log.VerifReset()
		})
	}()
	if hp != nil {
		if firstHarnessPanic == "" {
			firstHarnessPanic = fmt.Sprintf("%v\n%s", hp.val, hp.stack)
		}
		panic(*hp)
	}
	for _, f := range after {
		f(out)
	}
	return out
}

// runTasks is the common "spawn, run to quiescence" helper: returns the run
// result and records died tasks as notes (callers judge them).
func (x *Exec) run() verifsim.RunResult { return x.Sim.Run(nil) }

// diedSummary lists tasks that ended with a panic.
func (x *Exec) diedSummary() []string {
	var out []string
	for _, t := range x.Sim.Died() {
		out = append(out, fmt.Sprintf("%s: %v", t.Name, t.Panic))
	}
	sort.Strings(out)
	return out
}

// call runs f and converts a panic into (value, stack).
func call(f func()) (pv any, stack string) {
	defer func() {
		if r := recover(); r != nil {
			pv = r
			stack = string(debug.Stack())
		}
	}()
	f()
	return nil, ""
}

func short(s string, n int) string {
	if len(s) <= n {
		return s
	}
	return s[:n] + fmt.Sprintf("...(%d bytes)", len(s))
}

// panicSite extracts the first frame inside the library from a stack trace.
func panicSite(stack string) string {
	lines := strings.Split(stack, "\n")
	for i, l := range lines {
		if strings.HasPrefix(l, "github.com/go-spring/log.") && !strings.Contains(l, "verifsim") {
			fn := l
			if j := strings.LastIndex(fn, "("); j > 0 {
				fn = fn[:j]
			}
			fn = strings.TrimPrefix(fn, "github.com/go-spring/log.")
			_ = i
			return fn
		}
	}
	return "?"
}

// clientsStuck lists harness tasks (not library goroutines) that have not finished.
func (x *Exec) clientsStuck() []string {
	var out []string
	for _, t := range x.Sim.Tasks() {
		if !t.Daemon && t.State != verifsim.StDone {
			out = append(out, fmt.Sprintf("%s@%s(%s)", t.Name, t.Site, t.State))
		}
	}
	return out
}

// do runs f as a simulated task and schedules until quiescence. Anything that
// can block on a library goroutine (Refresh, Destroy, Start, Stop) must go
// through it: the root goroutine is the scheduler and must never block.
// It reports whether f returned.
func (x *Exec) do(name string, f func()) bool {
	done := false
	x.Sim.Spawn(name, func() { f(); done = true })
	x.Sim.Run(nil)
	return done
}

// harnessTasksDone reports whether every harness task has finished.
func (x *Exec) harnessTasksDone() bool {
	for _, t := range x.Sim.Tasks() {
		if !t.Daemon && t.State != verifsim.StDone {
			return false
		}
	}
	return true
}
