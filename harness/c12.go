package harness

import (
	"github.com/go-spring/log/verifsim/simos"
	"syscall"
	"bytes"
	"encoding/json"
	"fmt"
	"strings"

	log "github.com/go-spring/log"
	"pgregory.net/rapid"
)

// C12 — raw Write reaches every appender of the named logger verbatim.

type c12 struct{}

func init() { register(c12{}) }

func (c12) ID() string    { return "C12" }
func (c12) Level() string { return "exploration" }
func (c12) Rule() string {
	return "case = logger of kind Logger / AsyncLogger (direct or via Refresh, handle obtained by name before Refresh, sometimes twice) or Console / File logger via Refresh, 1-3 appender references with arbitrary level settings, 1-8 writer tasks issuing raw writes (empty, binary, multi-line, up to 64 KiB) that each recycle ONE buffer and overwrite it as soon as Write returns, worker free / starved / slow / gated; at most 100 writes so that no overflow policy applies. Non-trivial = at least one write was still queued or in a sink when its caller's buffer was overwritten (async) or at least one preemption between writers (sync); distinct = distinct context-switch trace hashes."
}
func (c12) Decode(raw json.RawMessage) (any, error) {
	var s AsyncScn
	err := json.Unmarshal(raw, &s)
	return &s, err
}

func (c12) Gen(rt *rapid.T, thorough bool) any {
	s := genAsyncBase(rt, thorough)
	s.Kind = rapid.SampledFrom([]string{"AsyncLogger", "AsyncLogger", "Logger", "Console", "File", "RollingFile"}).Draw(rt, "kind")
	if s.Kind == "Console" || s.Kind == "File" || s.Kind == "RollingFile" {
		s.Via = "refresh"
		s.Refs = nil
		s.LLayout = ""
	}
	if s.Kind == "RollingFile" {
		s.Separate = rapid.Bool().Draw(rt, "separate12")
		s.RAsync = rapid.Bool().Draw(rt, "rasync12")
		s.Policy = "Block"
	}
	// level settings of references must not matter for raw writes
	for i := range s.Refs {
		if rapid.Bool().Draw(rt, "reflevel") {
			s.Refs[i].Level = rapid.SampledFrom([]string{"", "ERROR", "TRACE~DEBUG", "FATAL", "info~warn", "INFO~INFO", "ERROR~WARN", "NONE~NONE", "TOP"}).Draw(rt, "reflevel_v")
		}
	}
	s.Reuse = true
	np := rapid.IntRange(1, 8).Draw(rt, "writers")
	per := 96 / np
	if per > 10 {
		per = 10
	}
	if s.Kind == "AsyncLogger" && s.Policy == "Block" && rapid.IntRange(0, 2).Draw(rt, "overflow12") == 0 {
		// Block keeps every item: more writes than the buffer holds are fine, the writers just
		// wait - and what they wrote must still be the bytes of the call
		np = rapid.IntRange(5, 8).Draw(rt, "writers_overflow")
		per = 26
		s.Overflow = true
	}
	for p := 0; p < np; p++ {
		n := rapid.IntRange(1, per).Draw(rt, "nwrites")
		var ops []AOp
		for i := 0; i < n; i++ {
			size := rapid.SampledFrom([]int{-1, -2, -3, 0, 1, 40, 40, 700, 65536}).Draw(rt, "size")
			if s.Overflow && (size > 1000 || size == -1) {
				size = 40
			}
			ops = append(ops, AOp{Raw: true, Size: size})
		}
		s.Producers = append(s.Producers, ops)
	}
	s.Gate = rapid.SampledFrom([]int{0, 1, 1}).Draw(rt, "gate")
	if s.Kind != "AsyncLogger" {
		s.Gate = 0
	}
	if s.Overflow {
		s.Gate = 1
	}
	s.Slow = rapid.SampledFrom([]int{0, 0, 2}).Draw(rt, "slow")
	if rapid.Bool().Draw(rt, "starve") {
		s.Knobs.Starve = []string{"go@plugin_logger"}
	}
	s.Handles = rapid.IntRange(0, 2).Draw(rt, "handles")
	s.Cycle = rapid.IntRange(0, 3).Draw(rt, "cycle") == 0
	s.BadHandle = rapid.IntRange(0, 9).Draw(rt, "bad_handle") == 0
	s.HandleOnly = s.Via == "refresh" && rapid.IntRange(0, 2).Draw(rt, "handle_only12") == 0
	if (s.Kind == "File" || s.Kind == "Console") && rapid.IntRange(0, 2).Draw(rt, "write_fail") == 0 {
		s.WriteFailAt = rapid.IntRange(1, 4).Draw(rt, "write_fail_at")
	}
	if s.Via == "refresh" && rapid.IntRange(0, 3).Draw(rt, "odd_name") == 0 {
		s.HName = rapid.SampledFrom([]string{"access_log", "access-log", "AccessLog", "a1", "log.access"}).Draw(rt, "handle_name")
	}
	if rapid.IntRange(0, 11).Draw(rt, "huge_write") == 0 && !s.Overflow && len(s.Producers) > 0 {
		// one very large write (above any plausible "large payload" threshold) behind small ones
		p := rapid.IntRange(0, len(s.Producers)-1).Draw(rt, "huge_p")
		s.Producers[p] = append(s.Producers[p], AOp{Raw: true, Size: 1<<20 + 3})
		if len(s.Producers[p]) > 2 {
			k := len(s.Producers[p])
			s.Producers[p][k-1], s.Producers[p][1] = s.Producers[p][1], s.Producers[p][k-1]
		}
	}
	return s
}

// c12Payload builds the bytes of one raw write. Size < 0 selects special shapes.
func c12Payload(task, seq, size int) []byte {
	switch size {
	case -1:
		return []byte{}
	case -2: // binary incl. NUL, newlines, 0xFF
		b := []byte(fmt.Sprintf("raw:t%ds%d:", task, seq))
		for i := 0; i < 300; i++ {
			b = append(b, byte(i*7+task))
		}
		return b
	case -3: // multi-line
		return []byte(fmt.Sprintf("raw:t%ds%d:line1\nline2 %s\n\nline4\n", task, seq, filler(task, seq, 20)))
	}
	return rawPayload(task, seq, size)
}

func (c12) Run(x *Exec, scn any) {
	s := scn.(*AsyncScn)
	o := x.Out
	x.FS.MkdirAll("/logs")
	if s.Via == "refresh" {
		runC12Refresh(x, s)
		return
	}
	sys := buildAsync(x, s)
	if sys.err != nil {
		o.violate("start-error", "C12/start-error", "valid logger rejected: %v", sys.err)
		return
	}
	runC12Writers(x, s, sys, func(b []byte) (int, error) { sys.logger.Write(b); return len(b), nil })
}

func runC12Refresh(x *Exec, s *AsyncScn) {
	o := x.Out
	hname := "alog"
	if s.HName != "" {
		hname = s.HName
	}
	spec := &SysSpec{Style: s.Style, Props: map[string]string{}}
	lg := LogSpec{Name: hname, Type: s.Kind, Tags: []string{"_app_*"}, Level: s.Level, Layout: s.LLayout}
	if s.HandleOnly {
		lg.Tags = []string{"legacy_*"} // matches no registered tag: the logger is reached through its handle only
	}
	sys := &asyncSys{s: s, capacity: s.BufferSize}
	switch s.Kind {
	case "AsyncLogger", "Logger":
		if s.Kind == "AsyncLogger" {
			lg.BufferSize, lg.Policy = s.BufferSize, s.Policy
		}
		for i, r := range s.Refs {
			name := fmt.Sprintf("rec%d", i)
			spec.Apps = append(spec.Apps, AppSpec{Name: name, Type: "Rec"})
			lg.Refs = append(lg.Refs, RefSpec{Ref: name, Level: r.Level})
			rec := getRec(name)
			rec.Slow = s.Slow
			if s.Gate != 0 {
				rec.SetGate()
			}
			sys.recs = append(sys.recs, rec)
		}
	case "File":
		lg.FileDir, lg.FileName = "/logs", "named.log"
		spec.Apps = append(spec.Apps, AppSpec{Name: "unused", Type: "Discard"})
		if s.WriteFailAt > 0 {
			// one write is refused (the disk was full for a moment): that one may be missing, no other
			x.FS.AddFault(&simos.FaultRule{Op: "write", Prefix: "/logs/named.log", Err: syscall.ENOSPC, Skip: s.WriteFailAt - 1, Count: 1})
		}
	case "RollingFile":
		lg.FileDir, lg.FileName, lg.Rotation = "/logs", "rf.log", "h"
		lg.Separate, lg.Async = s.Separate, s.RAsync
		if s.RAsync {
			lg.BufferSize, lg.Policy = s.BufferSize, s.Policy
		}
		spec.Apps = append(spec.Apps, AppSpec{Name: "unused", Type: "Discard"})
	case "Console":
		spec.Apps = append(spec.Apps, AppSpec{Name: "unused", Type: "Discard"})
		if s.WriteFailAt > 0 {
			// the stream rejects one write (a pipe that was full, an interrupted call): only that one may be missing
			x.FS.AddFault(&simos.FaultRule{Op: "write", Prefix: "/dev/stdout", Err: syscall.EAGAIN, Skip: s.WriteFailAt - 1, Count: 1})
		}
	}
	spec.Logs = []LogSpec{lg}
	h := log.GetLogger(hname)
	for i := 0; i < s.Handles; i++ {
		if h2 := log.GetLogger(hname); h2 != h {
			o.violate("handle-identity", "C12/handle-not-same", "GetLogger(%q) returned two different handles", hname)
		}
	}
	if s.BadHandle {
		log.GetLogger("nosuch")
	}
	cfg := spec.Render()
	var err error
	var pv any
	var st string
	if !x.do("refresh", func() { pv, st = call(func() { err = log.Refresh(cfg) }) }) {
		o.violate("refresh-blocked", "C12/refresh-blocked", "Refresh did not return: %v", x.clientsStuck())
		return
	}
	if pv != nil {
		o.violate("refresh-panic", "C12/refresh-panic/"+s.Kind+"/"+panicSite(st), "Refresh panicked for a named %s logger: %v", s.Kind, pv)
		return
	}
	if s.BadHandle {
		if err == nil {
			o.violate("unconfigured-handle-accepted", "C12/unconfigured-handle-accepted", "a handle was requested for logger %q which is not configured, yet Refresh succeeded", "nosuch")
		} else {
			// nothing about the request has changed: the same configuration fails again, and the
			// name still has its one handle
			var err2 error
			x.do("refresh-again", func() { call(func() { err2 = log.Refresh(spec.Render()) }) })
			if err2 == nil {
				o.violate("unconfigured-handle-accepted", "C12/unconfigured-handle-accepted-on-second-attempt", "Refresh failed for the unconfigured handle %q, then succeeded for the same configuration", "nosuch")
			}
		}
		o.Reached = true
		x.do("destroy", func() { call(log.Destroy) })
		return
	}
	if err != nil && hname != "alog" {
		// which spellings of a logger name a configuration can carry is not part of the statement:
		// rejecting the name is fine, accepting it obliges to deliver (judged below)
		o.Notes = append(o.Notes, "Refresh does not accept the logger name "+hname)
		x.do("destroy", func() { call(log.Destroy) })
		return
	}
	if err != nil {
		o.violate("refresh-error", "C12/refresh-error/"+s.Kind, "Refresh rejected a valid configuration: %v\n%v", err, cfg)
		return
	}
	if s.Cycle {
		// the handle of the first life must stay THE handle of that name across a Destroy / Refresh cycle
		if !x.do("destroy-1", func() { pv, st = call(log.Destroy) }) || pv != nil {
			o.violate("destroy-failed", "C12/destroy-failed", "Destroy blocked or panicked: %v %v", pv, x.clientsStuck())
			return
		}
		var h2 *log.LoggerWrapper
		if pv, _ := call(func() { h2 = log.GetLogger(hname) }); pv != nil {
			o.violate("gethandle-refused", "C12/handle-refused-after-destroy", "GetLogger after Destroy panicked: %v", pv)
			return
		}
		if h2 != h {
			o.violate("handle-identity", "C12/handle-not-same-after-destroy", "GetLogger(%q) after Destroy returned a different handle than before", hname)
		}
		if !x.do("refresh-2", func() { pv, st = call(func() { err = log.Refresh(cfg) }) }) || pv != nil || err != nil {
			o.violate("second-life-refresh", "C12/refresh-after-destroy-failed", "Refresh after Destroy failed: %v %v", pv, err)
			return
		}
		x.Sim.Probe("handle_survived_cycle")
	}
	sys.stop = log.Destroy
	runC12Writers(x, s, sys, h.Write)
}

func runC12Writers(x *Exec, s *AsyncScn, sys *asyncSys, write func([]byte) (int, error)) {
	o := x.Out
	sys.gateEnvs(x, true)
	subs := make([][]*Sub, len(s.Producers))
	overwrittenEarly := 0
	for p := range s.Producers {
		x.Sim.Spawn(fmt.Sprintf("writer%d", p), func() {
			var buf []byte
			for i, op := range s.Producers[p] {
				payload := c12Payload(p, i, op.Size)
				sb := &Sub{ID: fmt.Sprintf("t%ds%d", p, i), Task: p, Seq: i, Raw: true, Payload: append([]byte(nil), payload...)}
				buf = append(buf[:0], payload...)
				sb.Invoke, _ = stepTask()
				pv, st := call(func() { sb.N, sb.Err = write(buf) })
				sb.Return, _ = stepTask()
				if pv != nil {
					sb.Panic, sb.PanicAt = pv, panicSite(st)
				} else {
					sb.Returned = true
				}
				// has every reference already consumed it?  (reach probe only)
				for _, r := range sys.recs {
					if r.doneCount() < countBefore(subs, p, i)+1 {
						overwrittenEarly++
						break
					}
				}
				for k := range buf {
					buf[k] = '#'
				}
				subs[p] = append(subs[p], sb)
			}
		})
	}
	res := x.Sim.Run(nil)
	if res.StepCap {
		o.violate("livelock", "C12/writer-livelock", "writers did not finish: %v", res.Blocked)
		return
	}
	for _, t := range x.Sim.Tasks() {
		if !t.Daemon && t.State != 5 {
			o.violate("writer-stuck", "C12/writer-stuck", "writer %s blocked at %s although the worker was let through whenever the run was stuck (%d writes in total)", t.Name, t.Site, totalOps(s))
			return
		}
	}
	if sys.stop != nil {
		x.Sim.Spawn("stopper", sys.stop)
		sys.drain(x)
	}
	judgeDied(x, "C12")
	x.Sim.Close()
	o.Reached = overwrittenEarly > 0 || x.Sim.Preemptions() > 0
	// per-call results
	for _, ps := range subs {
		for _, sb := range ps {
			if sb.Panic != nil {
				o.violate("write-panic", "C12/write-panic/"+sb.PanicAt, "raw write %s panicked: %v", sb.ID, sb.Panic)
				continue
			}
			if sb.N != len(sb.Payload) || sb.Err != nil {
				o.violate("bad-result", "C12/bad-write-result", "Write of %d bytes returned (%d, %v)", len(sb.Payload), sb.N, sb.Err)
			}
		}
	}
	// sinks
	var sinks [][][]byte // per sink: the sequence of raw writes received
	var names []string
	switch s.Kind {
	case "Console":
		var seq [][]byte
		for _, w := range x.FS.StdoutWrites() {
			seq = append(seq, w.Data)
		}
		sinks, names = append(sinks, seq), append(names, "stdout")
	case "File":
		sinks, names = append(sinks, fileWrites(x, "/logs/named.log")), append(names, "/logs/named.log")
	case "RollingFile":
		// raw bytes carry no level: they belong in the normal file AND, with separate=true, in the .wf file
		var normal, wf [][]byte
		for _, e := range x.FS.List("/logs") {
			switch {
			case strings.HasPrefix(e.Name, "rf.log.wf."):
				wf = append(wf, fileWrites(x, "/logs/"+e.Name)...)
			case strings.HasPrefix(e.Name, "rf.log."):
				normal = append(normal, fileWrites(x, "/logs/"+e.Name)...)
			}
		}
		sinks, names = append(sinks, normal), append(names, "/logs/rf.log.<ts>")
		if s.Separate {
			sinks, names = append(sinks, wf), append(names, "/logs/rf.log.wf.<ts>")
		}
	default:
		for i, r := range sys.recs {
			var seq [][]byte
			for _, it := range r.snapshot() {
				if it.Wr != nil {
					seq = append(seq, it.Wr.Data)
				} else {
					o.violate("event-from-raw", "C12/raw-write-became-event", "reference %d received an event although only raw writes were issued", i)
				}
			}
			sinks, names = append(sinks, seq), append(names, fmt.Sprintf("rec%d", i))
		}
	}
	failedOS := x.FS.FailedWriteSet()
	for _, ps := range subs {
		for _, sb := range ps {
			sb.Failed = failedOS[string(sb.Payload)]
		}
	}
	for si, seq := range sinks {
		// match the received sequence against each writer's snapshots, in call order
		next := make([]int, len(subs))
		// empty writes carry no identity: compared by count, removed from the order check
		emptiesGot, emptiesWant := 0, 0
		for _, ps := range subs {
			for _, sb := range ps {
				if sb.Returned && len(sb.Payload) == 0 {
					emptiesWant++
				}
			}
		}
		if failedOS[""] && emptiesWant > 0 {
			emptiesWant-- // the one write the OS refused was an empty one
		}
		for _, got := range seq {
			if len(got) == 0 {
				emptiesGot++
				continue
			}
			for p := range subs { // skip empties (and writes the OS refused) in the expected sequences
				for next[p] < len(subs[p]) && (len(subs[p][next[p]].Payload) == 0 || (subs[p][next[p]].Failed && !bytes.Equal(got, subs[p][next[p]].Payload))) {
					next[p]++
				}
			}
			matched := false
			for p := range subs {
				if next[p] < len(subs[p]) && subs[p][next[p]].Returned && bytes.Equal(got, subs[p][next[p]].Payload) {
					next[p]++
					matched = true
					break
				}
			}
			if matched {
				continue
			}
			// classify
			kind := "not-the-bytes-of-any-call"
			for p := range subs {
				for j, sb := range subs[p] {
					if bytes.Equal(got, sb.Payload) {
						if j < next[p] {
							kind = "duplicate"
						} else {
							kind = "out-of-call-order"
						}
					}
				}
			}
			if bytes.Count(got, []byte("#")) > 0 && kind == "not-the-bytes-of-any-call" {
				kind = "bytes-changed-after-call"
			}
			o.violate("raw-mismatch", "C12/raw-write-"+kind+"/"+s.Kind, "%s received %q which is %s", names[si], short(string(got), 120), kind)
			break
		}
		if emptiesGot != emptiesWant && s.Kind != "File" && s.Kind != "RollingFile" { // an empty write leaves no trace in a file
			o.violate("raw-empty-count", "C12/raw-empty-write-count/"+s.Kind, "%s received %d empty writes, %d were issued", names[si], emptiesGot, emptiesWant)
		}
		for p := range subs {
			for next[p] < len(subs[p]) && (len(subs[p][next[p]].Payload) == 0 || subs[p][next[p]].Failed) {
				next[p]++
			}
			if next[p] < len(subs[p]) && len(o.Violations) == 0 {
				o.violate("raw-missing", "C12/raw-write-missing/"+s.Kind, "%s lacks write %s (%d of %d of writer %d arrived)", names[si], subs[p][next[p]].ID, next[p], len(subs[p]), p)
				break
			}
		}
	}
}

func countBefore(subs [][]*Sub, p, i int) int {
	n := 0
	for q := range subs {
		n += len(subs[q])
	}
	return n
}

func totalOps(s *AsyncScn) int {
	n := 0
	for _, p := range s.Producers {
		n += len(p)
	}
	return n
}
