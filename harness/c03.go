package harness

import (
	"encoding/json"
	"fmt"
	"sort"
	"strings"
	"time"

	log "github.com/go-spring/log"
	"github.com/go-spring/log/verifsim"
	"pgregory.net/rapid"
)

// C03 — concurrent synchronous logging yields whole, unmixed lines.

type C03Scn struct {
	Knobs     SimKnobs  `json:"knobs"`
	Mode      string    `json:"mode"` // builtin | refresh | direct
	Sys       *SysSpec  `json:"sys,omitempty"`
	Direct    string    `json:"direct,omitempty"`        // console | file
	DLayout   string    `json:"direct_layout,omitempty"` // TextLayout | JSONLayout
	Caller    bool      `json:"caller"`
	Ops       [][]EvOp  `json:"ops"` // per client task
	AdvanceMs int64     `json:"advance_ms,omitempty"` // one clock jump the scheduler may take (rolling sinks)
	Ack       bool      `json:"ack,omitempty"`        // C20: check durability at every acknowledgement
	Fast      bool      `json:"fast_caller,omitempty"` // property fastCaller=true (the cached call-site lookup)
	AfterCycle bool     `json:"after_cycle,omitempty"` // builtin mode: a configuration without a root logger was live and destroyed (or rejected late) before
	RawEvery  int       `json:"raw_every,omitempty"`   // C20: every k-th call of a client is followed by a two-line raw write through the named handle
}

func (s *C03Scn) knobs() SimKnobs { return s.Knobs }

type c03 struct{ ack bool }

func init() { register(c03{}); register(c03{ack: true}) }

func (c c03) ID() string {
	if c.ack {
		return "C20"
	}
	return "C03"
}
func (c c03) Level() string {
	if c.ack {
		return "fault_enumeration"
	}
	return "exploration"
}
func (c c03) ruleExtra() string {
	return " Since round 3: caller lookup off / exact / cached (fastCaller, expected location per entry point learnt from a sequential calibration run); context fields are one request-scoped slice with spare capacity shared by the events of a request; C20 also acknowledges two-line raw writes through the named handle."
}

func (c c03) Rule() string {
	if c.ack {
		return "case = synchronous logger on the simulated console stream / file / rolling file (both layouts, configuration rendered in a random spelling), 1-4 client tasks with 1-N logging calls, scheduling tape; drawn by rapid from the seed. Crash points: the simulated OS state (simos inode contents, console stream) is monotone (checked: no truncation), so a kill at any point after an acknowledged call leaves at least the state at the acknowledgement; the harness records the length of every sink at the step each call returns and requires the call's complete line inside that prefix - i.e. every crash point after every acknowledgement of every explored schedule is enumerated. Non-trivial = at least 2 acknowledgements checked and at least one preemption; distinct = distinct context-switch trace hashes." + c.ruleExtra()
	}
	return "case = (sink configuration rendered in a random spelling, per-task lists of logging calls with payload sizes, pool mode, sink chunking/slowness, scheduling tape) drawn by rapid from the seed; executed under the token-passing scheduler. Non-trivial = at least one preemption (a runnable task was switched away from) AND the reach probe fired (a task obtained a pooled buffer or entered a sink write while another task's sink write was unfinished). distinct = distinct hashes of the context-switch trace (task, yield site at every switch, environment actions)." + c.ruleExtra()
}

func (c c03) Decode(raw json.RawMessage) (any, error) {
	var s C03Scn
	err := json.Unmarshal(raw, &s)
	return &s, err
}

var c03Sizes = []int{0, 8, 40, 200, 900, 1100, 4000, 11000, 11000, 17000, 40000, 70000}

func (c c03) Gen(rt *rapid.T, thorough bool) any {
	s := &C03Scn{Knobs: genKnobs(rt)}
	s.Ack = c.ack
	s.Mode = rapid.SampledFrom([]string{"builtin", "refresh", "refresh", "refresh", "direct"}).Draw(rt, "mode")
	s.Caller = rapid.Bool().Draw(rt, "caller")
	maxTasks, maxOps := 4, 4
	if thorough {
		maxTasks, maxOps = 8, 6
		if rapid.IntRange(0, 19).Draw(rt, "huge") == 0 {
			maxTasks = 64
			maxOps = 2
		}
	}
	minTasks := 2
	if c.ack {
		minTasks, maxTasks = 1, 4
	}
	nt := rapid.IntRange(minTasks, maxTasks).Draw(rt, "tasks")
	for t := 0; t < nt; t++ {
		n := rapid.IntRange(1, maxOps).Draw(rt, "nops")
		var ops []EvOp
		for i := 0; i < n; i++ {
			ops = append(ops, EvOp{
				Kind: rapid.IntRange(0, 4).Draw(rt, "kind"),
				Size: rapid.SampledFrom(c03Sizes).Draw(rt, "size"),
				Ctx:  rapid.IntRange(0, 3).Draw(rt, "ctx") | rapid.SampledFrom([]int{0, 0, 0, 0, 4, 8}).Draw(rt, "ctx_done3") | rapid.SampledFrom([]int{0, 0, 0, 0, 0, 0, 0, 0, 0, 0, 0, 34}).Draw(rt, "ctx_boom"),
			})
		}
		s.Ops = append(s.Ops, ops)
	}
	switch s.Mode {
	case "direct":
		s.Direct = rapid.SampledFrom([]string{"console", "file"}).Draw(rt, "direct")
		s.DLayout = rapid.SampledFrom([]string{"TextLayout", "JSONLayout"}).Draw(rt, "dlayout")
	case "refresh":
		sys := &SysSpec{Style: genStyle(rt), Props: map[string]string{}}
		if bc := rapid.SampledFrom([]string{"", "", "64B", "1KB", "20KB"}).Draw(rt, "buffer_cap"); bc != "" {
			sys.Props["bufferCap"] = bc
		}
		if !s.Caller {
			sys.Props["enableCaller"] = "false"
		} else if rapid.IntRange(0, 3).Draw(rt, "fast_caller") == 0 {
			s.Fast = true
			sys.Props["fastCaller"] = "true"
		}
		kinds := []string{"Console", "File", "RollingFile"}
		if lk := rapid.SampledFrom([]string{"", "", "", "Console", "File", "RollingFile", "RollingFile"}).Draw(rt, "logger_kind"); lk != "" {
			// a logger type that owns its target (events still enter through the public API)
			lg := LogSpec{Name: "main", Type: lk, Tags: []string{"_app_*"}}
			lg.Layout = rapid.SampledFrom([]string{"", "TextLayout", "JSONLayout"}).Draw(rt, "lk_layout")
			switch lk {
			case "File":
				lg.FileDir, lg.FileName = "/logs", "lk.log"
			case "RollingFile":
				lg.FileDir, lg.FileName, lg.Rotation = "/logs", "lk.log", rapid.SampledFrom([]string{"h", "2s"}).Draw(rt, "lk_rot")
				lg.Separate = rapid.Bool().Draw(rt, "lk_sep")
				s.AdvanceMs = rapid.SampledFrom([]int64{0, 1500, 3600000}).Draw(rt, "lk_adv")
			}
			sys.Apps = []AppSpec{{Name: "unused", Type: "Discard"}}
			sys.Logs = []LogSpec{lg}
			s.Sys = sys
			break
		}
		nApp := rapid.IntRange(1, 2).Draw(rt, "napp")
		lg := LogSpec{Name: "main", Type: "Logger", Tags: []string{"_app_*"}}
		if rapid.Bool().Draw(rt, "as_root") {
			lg = LogSpec{Name: "root", Type: "Logger"}
		}
		if rapid.IntRange(0, 3).Draw(rt, "logger_layout") == 0 {
			lg.Layout = rapid.SampledFrom([]string{"TextLayout", "JSONLayout"}).Draw(rt, "ll")
			lg.Width = rapid.SampledFrom([]int{0, 10, 30, 100}).Draw(rt, "lw")
		}
		bounds := [][2]string{{"INFO~FATAL", "DEBUG~PANIC"}, {"TRACE~TOP", "INFO~CRIT"}}[rapid.IntRange(0, 1).Draw(rt, "bounds")]
		for i := 0; i < nApp; i++ {
			a := AppSpec{Name: fmt.Sprintf("a%d", i), Type: rapid.SampledFrom(kinds).Draw(rt, "akind")}
			a.Layout = rapid.SampledFrom([]string{"", "TextLayout", "JSONLayout"}).Draw(rt, "alayout")
			a.Width = rapid.SampledFrom([]int{0, 0, 10, 30, 100}).Draw(rt, "awidth")
			switch a.Type {
			case "File":
				a.FileDir, a.FileName = "/logs", fmt.Sprintf("f%d.log", i)
				if i > 0 && sys.Apps[0].Type == "File" && rapid.IntRange(0, 2).Draw(rt, "same_file") == 0 {
					a.FileName = sys.Apps[0].FileName // two appenders, one file: O_APPEND keeps every line
				}
			case "RollingFile":
				a.FileDir, a.FileName = "/logs", fmt.Sprintf("r%d.log", i)
				a.Rotation = rapid.SampledFrom([]string{"h", "10m", "2s"}).Draw(rt, "rotation")
				a.MaxAge = 100000
				s.AdvanceMs = rapid.SampledFrom([]int64{0, 1500, 2000, 600000, 3600000}).Draw(rt, "adv")
			}
			sys.Apps = append(sys.Apps, a)
			r := RefSpec{Ref: a.Name}
			if nApp > 1 {
				r.Level = bounds[i]
			}
			lg.Refs = append(lg.Refs, r)
		}
		sys.Logs = []LogSpec{lg}
		s.Sys = sys
	}
	if s.Mode == "builtin" {
		s.AfterCycle = rapid.IntRange(0, 2).Draw(rt, "after_cycle") == 0
	}
	if !c.ack && rapid.IntRange(0, map[bool]int{false: 600, true: 100}[thorough]).Draw(rt, "one_slow_among_many") == 37 { // (not 0: rapid favours the ends of a range)
		// one event whose formatting is still under way while another task makes more than a
		// thousand complete log calls: nothing the many do may touch the buffer of the one
		s.Mode, s.Direct, s.DLayout, s.Sys, s.AdvanceMs = "direct", "console", rapid.SampledFrom([]string{"TextLayout", "JSONLayout"}).Draw(rt, "slow_layout"), nil, 0
		s.Fast, s.RawEvery, s.AfterCycle = false, 0, false
		s.Knobs.MaxSteps, s.Knobs.Strategy, s.Knobs.Starve, s.Knobs.Chunks, s.Knobs.Delay = 600000, 0, nil, 1, 0
		many := make([]EvOp, 1100)
		for i := range many {
			many[i] = EvOp{Kind: i % 5, Size: 0}
		}
		s.Ops = [][]EvOp{{{Kind: 0, Size: 8, Ctx: 2 | 64}}, many}
	}
	if c.ack && s.Mode == "refresh" {
		s.RawEvery = rapid.SampledFrom([]int{0, 0, 1, 2}).Draw(rt, "raw_every")
	}
	return s
}

func init() {
	log.RegisterTimeRotation("2s", log.TimeRotation{Interval: 2 * time.Second})
	log.RegisterTimeRotation("1s", log.TimeRotation{Interval: time.Second})
}

// sinkWrites returns, for a sink, the byte strings of the individual Write
// calls it received.
type sinkRec struct {
	name   string
	kind   string // console | file | rolling
	layout string
	width  int
	lo, hi int32 // reference range (events with code in [lo,hi) are routed here)
	exclude string // rolling: path prefix that belongs to a sibling sink
}

func (c c03) Run(x *Exec, scn any) {
	s := scn.(*C03Scn)
	o := x.Out
	x.FS.MkdirAll("/logs")
	installHooks(true, true, true)
	tag := log.TagAppDef
	tagName := "_app_def"

	var sinks []sinkRec
	var stop func()
	var direct log.Logger
	fastLoc := map[int][2]any{}
	var handle *log.LoggerWrapper
	type rawAck struct {
		id, payload string
		ret         int
		at          ackSnap
	}
	var rawAcks []rawAck
	loggerRange := mRange{0, 999, false}
	switch s.Mode {
	case "builtin":
		sinks = []sinkRec{{name: "stdout", kind: "console", layout: "TextLayout", width: 48, lo: 0, hi: 999}}
		if s.AfterCycle {
			// the built-in console logger also serves the time after a configuration: here one without
			// a root logger was live and destroyed, or (odd map seeds) rejected after its loggers had started
			cyc := &SysSpec{Style: Style{}, Props: map[string]string{}, Apps: []AppSpec{{Name: "unused", Type: "Discard"}},
				Logs: []LogSpec{{Name: "side", Type: "Logger", Tags: []string{"zz_*"}, Refs: []RefSpec{{Ref: "unused"}}}}}
			if s.Knobs.MapSeed%2 == 1 {
				cyc.Props["bufferCap"] = "lots" // fails late
			}
			cfg := cyc.Render()
			ok := x.do("cycle", func() {
				call(func() {
					if err := log.Refresh(cfg); err == nil {
						log.Destroy()
					}
				})
			})
			if !ok {
				o.violate("blocked", c.ID()+"/log-call-blocked", "Refresh/Destroy of a side configuration did not return: %v", x.clientsStuck())
				return
			}
		}
	case "direct":
		switch s.Direct {
		case "console":
			var lay log.Layout = &log.TextLayout{BaseLayout: log.BaseLayout{FileLineLength: 48}}
			if s.DLayout == "JSONLayout" {
				lay = &log.JSONLayout{BaseLayout: log.BaseLayout{FileLineLength: 48}}
			}
			l := &log.ConsoleLogger{
				LoggerBase:      log.LoggerBase{Level: log.LevelRange{MinLevel: log.NoneLevel, MaxLevel: log.MaxLevel}},
				ConsoleAppender: log.ConsoleAppender{Layout: lay},
			}
			direct = l
			sinks = []sinkRec{{name: "stdout", kind: "console", layout: s.DLayout, width: 48, lo: 0, hi: 999}}
		case "file":
			var lay log.Layout = &log.TextLayout{BaseLayout: log.BaseLayout{FileLineLength: 48}}
			if s.DLayout == "JSONLayout" {
				lay = &log.JSONLayout{BaseLayout: log.BaseLayout{FileLineLength: 48}}
			}
			l := &log.FileLogger{
				LoggerBase:   log.LoggerBase{Level: log.LevelRange{MinLevel: log.NoneLevel, MaxLevel: log.MaxLevel}},
				FileAppender: log.FileAppender{Layout: lay, FileDir: "/logs", FileName: "direct.log"},
			}
			if err := l.Start(); err != nil {
				panic(fmt.Sprintf("harness: direct file logger start: %v", err))
			}
			direct = l
			stop = l.Stop
			sinks = []sinkRec{{name: "/logs/direct.log", kind: "file", layout: s.DLayout, width: 48, lo: 0, hi: 999}}
		}
	case "refresh":
		if s.Fast {
			// which location the cached lookup reports for each entry point is learnt from one
			// sequential call per entry point (own configuration, recording appender); what is
			// judged is that concurrent events carry exactly that location - their own.
			calSpec := &SysSpec{Style: s.Sys.Style, Props: map[string]string{"fastCaller": "true"},
				Apps: []AppSpec{{Name: "cal", Type: "Rec"}}, Logs: []LogSpec{{Name: "root", Type: "Logger", Refs: []RefSpec{{Ref: "cal"}}}}}
			calCfg := calSpec.Render()
			ok := x.do("calibrate", func() {
				if err := log.Refresh(calCfg); err != nil {
					panic("harness: calibration Refresh failed: " + err.Error())
				}
				for kind := 0; kind <= 4; kind++ {
					emit(98, kind, tag, tagName, EvOp{Kind: kind, Size: 8}, log.InfoLevel)
				}
				log.Destroy()
			})
			if !ok {
				panic(fmt.Sprintf("harness: calibration did not finish: %v", x.clientsStuck()))
			}
			for _, it := range getRec("cal").snapshot() {
				var task, kind int
				if it.Ev != nil {
					if n, _ := fmt.Sscanf(it.Ev.ID, "t%ds%d", &task, &kind); n == 2 && task == 98 {
						fastLoc[kind] = [2]any{it.Ev.File, it.Ev.Line}
					}
				}
			}
			if len(fastLoc) != 5 {
				panic(fmt.Sprintf("harness: calibration saw %d of 5 entry points", len(fastLoc)))
			}
			resetHooks()
			installHooks(true, true, true)
		}
		handle = log.GetLogger(s.Sys.Logs[0].Name)
		cfg := s.Sys.Render()
		var err error
		var pv any
		var st string
		x.do("refresh", func() { pv, st = call(func() { err = log.Refresh(cfg) }) })
		if pv != nil {
			o.violate("refresh-panic", c.ID()+"/refresh-panic/"+panicSite(st), "Refresh panicked on a valid configuration: %v\n%s", pv, short(st, 1500))
			return
		}
		if err != nil {
			o.violate("refresh-error", c.ID()+"/refresh-error", "Refresh rejected a valid configuration: %v\nconfig=%v", err, cfg)
			return
		}
		stop = log.Destroy
		lg := s.Sys.Logs[0]
		loggerRange, _ = modelRange(lg.Level)
		ranges := modelRefRanges(lg.Refs)
		switch lg.Type {
		case "Console":
			sinks = append(sinks, sinkRec{name: "stdout", kind: "console", layout: lg.Layout, width: lg.Width, lo: 0, hi: 999})
		case "File":
			sinks = append(sinks, sinkRec{name: "/logs/" + lg.FileName, kind: "file", layout: lg.Layout, width: lg.Width, lo: 0, hi: 999})
		case "RollingFile":
			if lg.Separate {
				sinks = append(sinks, sinkRec{name: "/logs/" + lg.FileName + ".", exclude: "/logs/" + lg.FileName + ".wf.", kind: "rolling", layout: lg.Layout, width: lg.Width, lo: 0, hi: 400})
				sinks = append(sinks, sinkRec{name: "/logs/" + lg.FileName + ".wf.", kind: "rolling", layout: lg.Layout, width: lg.Width, lo: 400, hi: 999})
			} else {
				sinks = append(sinks, sinkRec{name: "/logs/" + lg.FileName + ".", kind: "rolling", layout: lg.Layout, width: lg.Width, lo: 0, hi: 999})
			}
		}
		for i, a := range s.Sys.Apps {
			if lg.Type != "Logger" {
				break
			}
			sk := sinkRec{layout: a.Layout, width: a.Width, lo: ranges[i].Min, hi: ranges[i].Max}
			if lg.Layout != "" || lg.Width != 0 {
				sk.layout, sk.width = lg.Layout, lg.Width
			}
			switch a.Type {
			case "Console":
				sk.name, sk.kind = "stdout", "console"
			case "File":
				sk.name, sk.kind = "/logs/"+a.FileName, "file"
			case "RollingFile":
				sk.name, sk.kind = "/logs/"+a.FileName+".", "rolling"
			}
			sinks = append(sinks, sk)
		}
	}
	if s.Mode != "refresh" {
		s.Caller = true // caller lookup can only be switched off through Refresh
	}

	// clients
	subs := make([][]*Submitted, len(s.Ops))
	acks := map[string]ackSnap{}
	for t := range s.Ops {
		x.Sim.Spawn(fmt.Sprintf("client%d", t), func() {
			for i, op := range s.Ops[t] {
				var sb *Submitted
				if direct != nil {
					sb = emitDirect(direct, t, i, tagName, op)
				} else {
					sb = emit(t, i, tag, tagName, op, log.InfoLevel)
				}
				subs[t] = append(subs[t], sb)
				if s.Ack && sb.Returned {
					// no scheduling point between the return of the call and this snapshot
					acks[sb.ID] = snapSinks(x)
				}
				if s.Ack && s.RawEvery > 0 && i%s.RawEvery == 0 && handle != nil {
					// a write through the named handle is acknowledged like any other call; its
					// payload holds two complete lines
					ra := rawAck{id: fmt.Sprintf("raw-t%ds%d", t, i), payload: fmt.Sprintf("raw:t%ds%d:first line\n\tsecond line of the same write\n", t, i)}
					if pv, _ := call(func() { handle.Write([]byte(ra.payload)) }); pv == nil {
						ra.ret, _ = stepTask()
						ra.at = snapSinks(x)
						rawAcks = append(rawAcks, ra)
					}
				}
			}
		})
	}
	if s.AdvanceMs > 0 {
		moves := 0
		x.Sim.AddEnv(&verifsim.EnvAction{Name: "advance", Enabled: func() bool { return moves < 3 },
			Run: func() { moves++; x.Sim.Advance(time.Duration(s.AdvanceMs) * time.Millisecond) }})
	}
	res := x.Sim.Run(nil)
	if len(x.clientsStuck()) > 0 || res.StepCap {
		o.violate("blocked", c.ID()+"/log-call-blocked", "synchronous log calls did not finish: %+v", res)
	}
	if d := x.Sim.Died(); len(d) > 0 {
		panic(fmt.Sprintf("harness: client task died: %v\n%s", d[0].Panic, d[0].Stack))
	}
	if stop != nil {
		x.Sim.Spawn("stopper", stop)
		x.Sim.Run(nil)
	}
	if d := x.Sim.Died(); len(d) > 0 {
		o.violate("stop-panic", c.ID()+"/stop-panic", "Stop/Destroy panicked: %v", d[0].Panic)
	}
	x.Sim.Close()

	// ---- oracle (single-threaded, simulation over)
	var all []*Submitted
	for t, ts := range subs {
		for i, sb := range ts {
			if s.Fast {
				loc := fastLoc[s.Ops[t][i].Kind]
				sb.File, sb.Line = loc[0].(string), loc[1].(int)
			}
		}
		all = append(all, ts...)
	}
	doomed := map[string]bool{}
	for t, ts := range subs {
		for i, sb := range ts {
			if s.Ops[t][i].Ctx&32 != 0 {
				doomed[sb.ID] = true // the application's own encoder panics for this call; the caller recovered
			}
		}
	}
	for _, e := range all {
		if e.Panic != nil && !(doomed[e.ID] && strings.Contains(fmt.Sprint(e.Panic), "application encoder failed")) {
			o.violate("log-panic", c.ID()+"/log-call-panic/"+e.PanicAt, "log call %s panicked: %v", e.ID, e.Panic)
		}
	}
	o.Reached = (x.Sim.Probes["pool_get_during_sink_write"] > 0 || x.Sim.Probes["sink_write_overlap"] > 0) && x.Sim.Preemptions() > 0
	if s.Ack {
		o.Reached = len(acks) >= 2 && x.Sim.Preemptions() > 0
	}
	judged := map[string]bool{}
	for _, sk := range sinks {
		if s.Ack {
			break // C20 judges acknowledgements only; line integrity is C03
		}
		if judged[sk.name] {
			continue // sinks writing to the same stream or file are judged together
		}
		judged[sk.name] = true
		var got [][]byte
		switch sk.kind {
		case "console":
			for _, w := range x.FS.StdoutWrites() {
				got = append(got, w.Data)
			}
		case "file":
			got = fileWrites(x, sk.name)
		case "rolling":
			for _, e := range x.FS.List("/logs") {
				if strings.HasPrefix("/logs/"+e.Name, sk.name) && (sk.exclude == "" || !strings.HasPrefix("/logs/"+e.Name, sk.exclude)) {
					got = append(got, fileWrites(x, "/logs/"+e.Name)...)
				}
			}
		}
		// the console stream is shared by every Console appender: expected lines
		// are pooled over all console sinks below
		expected := map[string]int{}
		for _, other := range sinks {
			if other.name == sk.name {
				for _, e := range all {
					code := levelCodes[strings.ToUpper(e.Level)]
					if !e.Returned || !loggerRange.has(code) || code < other.lo || code >= other.hi {
						continue
					}
					expected[string(refLine(e, other.layout, other.width, s.Caller))]++
				}
			}
		}
		seen := map[string]int{}
		for _, w := range got {
			line := string(w)
			seen[line]++
			switch {
			case expected[line] == 0:
				o.violate("line-not-reference", "C03/line-not-reference/"+sk.kind,
					"sink %s received a write that is not the stand-alone formatting of any logged event: %q", sk.name, short(line, 300))
			case seen[line] > expected[line]:
				o.violate("duplicate-line", "C03/duplicate-line/"+sk.kind, "sink %s received a line more often than it was logged: %q", sk.name, short(line, 200))
			}
		}
		var missing []string
		for line, n := range expected {
			if seen[line] < n {
				missing = append(missing, short(line, 160))
			}
		}
		sort.Strings(missing)
		if len(missing) > 0 {
			o.violate("missing-line", "C03/missing-line/"+sk.kind, "sink %s lacks %d of %d expected lines, e.g. %q", sk.name, len(missing), len(expected), missing[0])
		}
	}
	if s.Ack {
		c.judgeAcks(x, s, sinks, all, acks, loggerRange)
		stdoutW := x.FS.StdoutWrites()
		for _, ra := range rawAcks {
			for _, sk := range sinks {
				found := false
				switch sk.kind {
				case "console":
					var sb strings.Builder
					for _, w := range stdoutW[:ra.at.stdout] {
						sb.Write(w.Data)
					}
					found = strings.Contains(sb.String(), ra.payload)
				case "file":
					data, _ := x.FS.ReadFile(sk.name)
					n := ra.at.files[sk.name]
					found = n <= len(data) && strings.Contains(string(data[:n]), ra.payload)
				case "rolling":
					for name, n := range ra.at.files {
						if strings.HasPrefix(name, sk.name) && (sk.exclude == "" || !strings.HasPrefix(name, sk.exclude)) {
							data, _ := x.FS.ReadFile(name)
							if n <= len(data) && strings.Contains(string(data[:n]), ra.payload) {
								found = true
							}
						}
					}
				}
				if !found {
					o.violate("acked-raw-write-not-in-os", "C20/acked-raw-write-not-in-os/"+sk.kind,
						"the write %s through the named handle returned at step %d but its %d bytes were not completely in %s at that step: %q", ra.id, ra.ret, len(ra.payload), sk.name, ra.payload)
				}
			}
		}
	}
	for _, e := range x.FS.List("/logs") {
		if e.Shrinks > 0 {
			o.violate("file-shrunk", c.ID()+"/file-shrunk", "file %s lost content", e.Name)
		}
		if e.Rewrites > 0 {
			o.violate("file-rewritten", c.ID()+"/file-content-overwritten", "bytes already written to %s were written over %d times: a line that was in the file did not stay there", e.Name, e.Rewrites)
		}
	}
}

func fileWrites(x *Exec, path string) [][]byte {
	data, ok := x.FS.ReadFile(path)
	if !ok {
		return nil
	}
	var out [][]byte
	end := 0
	for _, w := range x.FS.Writes(path) {
		out = append(out, data[w.Off:w.Off+w.Len])
		if w.Off != end {
			out = append(out, []byte(fmt.Sprintf("<non-contiguous write at %d, expected %d>", w.Off, end)))
		}
		end = w.Off + w.Len
	}
	return out
}

// ackSnap is the simulated OS state summary taken at an acknowledgement: the
// length of every file under /logs and the number of console writes. Contents
// are append-only (checked), so the prefix of the final content of that length
// is exactly the content at that step.
type ackSnap struct {
	files  map[string]int
	stdout int
}

func snapSinks(x *Exec) ackSnap {
	a := ackSnap{files: map[string]int{}}
	for _, e := range x.FS.List("/logs") {
		a.files["/logs/"+e.Name] = e.Size
	}
	a.stdout = len(x.FS.StdoutWrites())
	x.Sim.Probe("acks_checked")
	return a
}

func (c c03) judgeAcks(x *Exec, s *C03Scn, sinks []sinkRec, all []*Submitted, acks map[string]ackSnap, loggerRange mRange) {
	o := x.Out
	stdout := x.FS.StdoutWrites()
	for _, e := range all {
		a, ok := acks[e.ID]
		if !ok {
			continue
		}
		code := levelCodes[strings.ToUpper(e.Level)]
		if !loggerRange.has(code) {
			continue
		}
		for _, sk := range sinks {
			if code < sk.lo || code >= sk.hi {
				continue
			}
			line := string(refLine(e, sk.layout, sk.width, s.Caller))
			found := false
			switch sk.kind {
			case "console":
				for _, w := range stdout[:a.stdout] {
					if string(w.Data) == line {
						found = true
					}
				}
			case "file":
				data, _ := x.FS.ReadFile(sk.name)
				n := a.files[sk.name]
				found = n <= len(data) && strings.Contains(string(data[:n]), line)
			case "rolling":
				for name, n := range a.files {
					if strings.HasPrefix(name, sk.name) && (sk.exclude == "" || !strings.HasPrefix(name, sk.exclude)) {
						data, _ := x.FS.ReadFile(name)
						if n <= len(data) && strings.Contains(string(data[:n]), line) {
							found = true
						}
					}
				}
			}
			if !found {
				o.violate("acked-line-not-in-os", "C20/acked-line-not-in-os/"+sk.kind,
					"log call %s returned at step %d but its complete line was not in %s at that step (a kill right after the call would lose it): %q", e.ID, e.Return, sk.name, short(line, 200))
			}
		}
	}
}
