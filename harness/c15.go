package harness

import (
	"sync/atomic"
	"encoding/json"
	"fmt"
	"sort"
	"strconv"
	"strings"
	"sync"
	"syscall"

	log "github.com/go-spring/log"
	"github.com/go-spring/log/verifsim/simos"
	"pgregory.net/rapid"
)

// C15 — configuration resolves as declared; bad configuration is an error, not a panic.

// ProbeAppender is a harness plugin with one attribute of every supported
// kind; Start publishes the injected values.
type ProbeAppender struct {
	log.AppenderBase
	Str    string               `PluginAttribute:"str,default=dflt"`
	Req    string               `PluginAttribute:"reqStr"`
	Num    int                  `PluginAttribute:"num,default=7"`
	Big    int64                `PluginAttribute:"bigNum,default=-5"`
	Small  int8                 `PluginAttribute:"smallNum,default=3"`
	Port   uint16               `PluginAttribute:"portNo,default=80"`
	Flag   bool                 `PluginAttribute:"flag,default=false"`
	Ratio  float64              `PluginAttribute:"ratio,default=0.5"`
	Lvl    log.LevelRange       `PluginAttribute:"lvl,default="`
	Pol    log.BufferFullPolicy `PluginAttribute:"overflowPolicy,default=Discard"`
	Layout log.Layout           `PluginElement:"Layout,default=TextLayout"`
}

type probeVals struct {
	Str, Req        string
	Num             int
	Big             int64
	Small           int8
	Port            uint16
	Flag            bool
	Ratio           float64
	LvlMin, LvlMax  int32
	Pol             int
	Layout          string
	Width           int
}

var (
	probeMu  sync.Mutex
	probeGot = map[string]probeVals{}
)

func (p *ProbeAppender) Start() error {
	v := probeVals{Str: p.Str, Req: p.Req, Num: p.Num, Big: p.Big, Small: p.Small, Port: p.Port, Flag: p.Flag, Ratio: p.Ratio,
		LvlMin: p.Lvl.MinLevel.Code(), LvlMax: p.Lvl.MaxLevel.Code(), Pol: int(p.Pol)}
	switch l := p.Layout.(type) {
	case *log.TextLayout:
		v.Layout, v.Width = "TextLayout", l.FileLineLength
	case *log.JSONLayout:
		v.Layout, v.Width = "JSONLayout", l.FileLineLength
	}
	probeMu.Lock()
	probeGot[p.Name] = v
	probeMu.Unlock()
	return nil
}
func (p *ProbeAppender) Stop()               {}
func (p *ProbeAppender) Append(e *log.Event) {}
func (p *ProbeAppender) Write(b []byte)      {}

func init() {
	log.RegisterPlugin[ProbeAppender]("Probe", log.PluginTypeAppender)
	log.RegisterPlugin[Probe2Appender]("Probe2", log.PluginTypeAppender)
}

// Probe2Appender declares defaults that are placeholders themselves: a default is a value like a
// configured one.
type Probe2Appender struct {
	log.AppenderBase
	Dir string `PluginAttribute:"dir,default=${probe_dir}"`
	Cap int    `PluginAttribute:"cap,default=${probe_cap}"`
}

var probe2Got struct {
	sync.Mutex
	dir string
	cap int
	set bool
}

func (p *Probe2Appender) Start() error {
	probe2Got.Lock()
	probe2Got.dir, probe2Got.cap, probe2Got.set = p.Dir, p.Cap, true
	probe2Got.Unlock()
	return nil
}
func (p *Probe2Appender) Stop()               {}
func (p *Probe2Appender) Append(e *log.Event) {}
func (p *Probe2Appender) Write(b []byte)      {}

// PAttr is how one attribute of the probe is written in a case.
type PAttr struct {
	Name string `json:"name"`
	How  string `json:"how"` // set | omit | prop | missing-prop | bad
	Val  string `json:"val,omitempty"`
}

type C15Scn struct {
	Knobs   SimKnobs          `json:"knobs"`
	Mode    string            `json:"mode"` // probe | types | mutate | iofail
	Style   Style             `json:"style"`
	Attrs   []PAttr           `json:"attrs,omitempty"`
	Inline  bool              `json:"inline,omitempty"`
	Muts    []string          `json:"mutations,omitempty"`
	MutSeed uint64            `json:"mut_seed,omitempty"`
	Fault   string            `json:"fault,omitempty"`
	Many    int               `json:"many,omitempty"`     // mode many: number of elements in the indexed list
	BadAt   int               `json:"bad_at,omitempty"`   // mode many: 1-based index of a dangling reference (0 = none)
}

func (s *C15Scn) knobs() SimKnobs { return s.Knobs }

type c15 struct{}

func init() { register(c15{}) }

func (c15) ID() string    { return "C15" }
func (c15) Level() string { return "exploration" }
func (c15) Rule() string {
	return "four workloads drawn by rapid from the seed. probe: a harness plugin with one attribute of every supported kind (string, required string, int, int64, int8, uint16, bool, float64, LevelRange and BufferFullPolicy converters, defaulted Layout element); each attribute is configured well-typed, omitted, written as ${prop} with the property present or absent, or ill-typed/out of range; keys in camelCase/kebab-case/snake_case, flat or as inline 'name!' expression; oracle: Refresh fails iff some attribute is required-and-missing, refers to an absent property or does not convert, otherwise the published field values equal configured-or-default values. types: every registered logger and appender type is instantiated from one configuration, used and destroyed on the simulated disk. mutate: random deletions, garbage values, duplicate spellings, structural conflicts and truncated expressions applied to a valid configuration: Refresh must return (nil or error) without panicking, and a configuration it accepts must log and Destroy without panic. iofail: start-up against injected open failures (ENOENT, EACCES, EMFILE, ENOSPC) must be an error, never a panic, and leave no descriptor open. Besides, every Refresh-based case of the other properties renders its intended configuration in a random spelling and checks behaviour against the intent. Non-trivial = the case exercised at least one non-default resolution path (default applied, ${} substituted, error expected) or a mutation; distinct = distinct scenario hashes."
}
func (c15) Decode(raw json.RawMessage) (any, error) {
	var s C15Scn
	err := json.Unmarshal(raw, &s)
	return &s, err
}

type attrKind struct {
	name  string
	kind  string // str int int64 int8 uint16 bool float level policy
	req   bool
	good  []string
	bad   []string
}

var probeAttrs = []attrKind{
	{"str", "str", false, []string{"hello", "with space", "x=y", "42", "C:\\new\\tmp\\file", "a\\\\n", "tab\there"}, nil},
	{"reqStr", "str", true, []string{"needed", "r2"}, nil},
	{"num", "int", false, []string{"0", "12", "-3", "100000"}, []string{"twelve", "1.5", "", "99999999999999999999"}},
	{"bigNum", "int64", false, []string{"9007199254740993", "-9223372036854775808"}, []string{"9223372036854775808", "x1"}},
	{"smallNum", "int8", false, []string{"-128", "127", "5"}, []string{"128", "-129", "1000"}},
	{"portNo", "uint16", false, []string{"0", "8080", "65535"}, []string{"65536", "-1", "70000", "http"}},
	{"flag", "bool", false, []string{"true", "false", "1", "0", "T"}, []string{"yes", "maybe", "2"}},
	{"ratio", "float", false, []string{"0.25", "1e3", "-2", "3"}, []string{"abc", "1,5"}},
	{"lvl", "level", false, []string{"INFO", "debug~ERROR", "notice", ""}, []string{"NOPE", "INFO~NOPE", "~"}},
	{"overflowPolicy", "policy", false, []string{"Block", "Discard", "DiscardOldest"}, []string{"block", "Drop", ""}},
}

func (c15) Gen(rt *rapid.T, thorough bool) any {
	s := &C15Scn{Knobs: genKnobs(rt), Style: genStyle(rt)}
	s.Mode = rapid.SampledFrom([]string{"probe", "probe", "probe", "types", "mutate", "mutate", "iofail", "many", "late", "dflt"}).Draw(rt, "mode")
	switch s.Mode {
	case "many":
		// an indexed element list longer than anything a test writes by hand
		s.Many = rapid.SampledFrom([]int{3, 10, 11, 12, 25, 101}).Draw(rt, "many")
		if rapid.IntRange(0, 2).Draw(rt, "many_bad") == 0 {
			s.BadAt = rapid.IntRange(1, s.Many).Draw(rt, "bad_at")
		}
	case "probe":
		s.Inline = rapid.Bool().Draw(rt, "inline")
		for _, a := range probeAttrs {
			pa := PAttr{Name: a.name}
			r := rapid.IntRange(0, 21).Draw(rt, "how")
			switch {
			case r < 9:
				pa.How, pa.Val = "set", rapid.SampledFrom(a.good).Draw(rt, "good")
			case r < 14:
				pa.How = "omit"
			case r < 16:
				pa.How, pa.Val = "prop", rapid.SampledFrom(a.good).Draw(rt, "good_prop")
			case r < 17:
				// the property's value is itself of the form ${...}: one substitution only
				pa.How, pa.Val = "chain", rapid.SampledFrom(a.good).Draw(rt, "good_chain")
			case r < 18:
				pa.How = "missing-prop"
			case r == 20:
				pa.How = "node-prop" // ${key} where key names a sub-tree of the configuration, not a property
			case r == 21:
				// a property whose value looks like an empty collection or a nil: still just text
				pa.How, pa.Val = "odd-prop", rapid.SampledFrom([]string{"{}", "[]", "<nil>"}).Draw(rt, "odd")
			default:
				if len(a.bad) > 0 {
					pa.How, pa.Val = "bad", rapid.SampledFrom(a.bad).Draw(rt, "bad")
				} else {
					pa.How = "omit"
				}
			}
			s.Attrs = append(s.Attrs, pa)
		}
		// layout element
		s.Attrs = append(s.Attrs, PAttr{Name: "layout", How: rapid.SampledFrom([]string{"omit", "set", "set", "bad", "untyped"}).Draw(rt, "layout_how"),
			Val: rapid.SampledFrom([]string{"TextLayout", "JSONLayout"}).Draw(rt, "layout_type")})
		s.Attrs = append(s.Attrs, PAttr{Name: "loggerLayout", How: rapid.SampledFrom([]string{"none", "none", "omit", "set", "bad", "empty", "dangling", "unknown-logger", "unknown-appender", "no-ref", "ref-leaf", "ref-empty-list"}).Draw(rt, "ll_how"),
			Val: rapid.SampledFrom([]string{"TextLayout", "JSONLayout"}).Draw(rt, "ll_type")})
		s.Attrs = append(s.Attrs, PAttr{Name: "width", How: rapid.SampledFrom([]string{"omit", "set"}).Draw(rt, "width_how"), Val: rapid.SampledFrom([]string{"5", "48", "120"}).Draw(rt, "width")})
	case "mutate":
		n := rapid.IntRange(1, 4).Draw(rt, "nmut")
		for i := 0; i < n; i++ {
			s.Muts = append(s.Muts, rapid.SampledFrom([]string{"drop", "garbage", "dup-case", "conflict", "truncate-expr", "unknown-key", "empty-value", "index-gap", "bad-type", "key-trailing-sep", "key-double-sep", "key-odd-chars"}).Draw(rt, "mut"))
		}
		s.MutSeed = rapid.Uint64().Draw(rt, "mut_seed")
	case "iofail":
		s.Fault = rapid.SampledFrom([]string{"ENOENT", "EACCES", "EMFILE", "ENOSPC"}).Draw(rt, "fault")
	}
	return s
}

// fullConfig instantiates every registered logger and appender type.
func fullConfig(st Style) *SysSpec {
	return &SysSpec{Style: st, Props: map[string]string{"bufferCap": "4KB"},
		Apps: []AppSpec{
			{Name: "con", Type: "Console", Layout: "JSONLayout"},
			{Name: "fil", Type: "File", FileDir: "/logs", FileName: "all.log"},
			{Name: "rol", Type: "RollingFile", FileDir: "/logs", FileName: "roll.log", Rotation: "10m", MaxAge: 24, Layout: "TextLayout", Width: 20},
			{Name: "dis", Type: "Discard"},
			{Name: "rec", Type: "Rec"},
		},
		Logs: []LogSpec{
			{Name: "root", Type: "Logger", Level: "WARN", Refs: []RefSpec{{Ref: "con"}, {Ref: "rec", Level: "ERROR"}}},
			{Name: "l1", Type: "Logger", Tags: []string{"t1_*"}, Refs: []RefSpec{{Ref: "fil"}, {Ref: "rol", Level: "INFO"}, {Ref: "dis", Level: "FATAL"}}},
			{Name: "l2", Type: "AsyncLogger", Tags: []string{"t2_*"}, BufferSize: 128, Policy: "Block", Layout: "JSONLayout", Refs: []RefSpec{{Ref: "rec"}}},
			{Name: "l3", Type: "Discard", Tags: []string{"t3_*"}},
			{Name: "l4", Type: "Console", Tags: []string{"t4_*"}, Layout: "TextLayout"},
			{Name: "l5", Type: "File", Tags: []string{"t5_*"}, FileDir: "/logs", FileName: "l5.log"},
			{Name: "l6", Type: "RollingFile", Tags: []string{"t6_*"}, FileDir: "/logs", FileName: "l6.log", Rotation: "h", Separate: true, Async: true, BufferSize: 100, Policy: "DiscardOldest"},
			{Name: "l7", Type: "RollingFile", Tags: []string{"t7_*"}, FileDir: "/logs", FileName: "l7.log", Rotation: "30m", Layout: "JSONLayout"},
		}}
}

func (c c15) Run(x *Exec, scn any) {
	s := scn.(*C15Scn)
	o := x.Out
	o.ScnDistinct = true
	x.FS.MkdirAll("/logs")
	probeMu.Lock()
	probeGot = map[string]probeVals{}
	probeMu.Unlock()
	x.Sim.NoteState("mode=" + s.Mode)
	switch s.Mode {
	case "probe":
		c.runProbe(x, s)
	case "types":
		c.runTypes(x, s, fullConfig(s.Style).Render(), true)
	case "mutate":
		c.runMutate(x, s)
	case "many":
		c.runMany(x, s)
	case "late":
		c.runLate(x, s)
	case "dflt":
		c.runDflt(x, s)
	case "iofail":
		errno := map[string]syscall.Errno{"ENOENT": syscall.ENOENT, "EACCES": syscall.EACCES, "EMFILE": syscall.EMFILE, "ENOSPC": syscall.ENOSPC}[s.Fault]
		x.FS.AddFault(&simos.FaultRule{Op: "open", Prefix: "/logs", Err: errno, Skip: int(s.Knobs.MapSeed % 4), Count: -1})
		c.runTypes(x, s, fullConfig(s.Style).Render(), false)
	}
}

func (c15) refresh(x *Exec, cfg map[string]string) (err error, ok bool) {
	o := x.Out
	var pv any
	var st string
	if !x.do("refresh", func() { pv, st = call(func() { err = log.Refresh(cfg) }) }) {
		o.violate("refresh-blocked", "C15/refresh-blocked", "Refresh did not return: %v\n%v", x.clientsStuck(), cfg)
		return nil, false
	}
	if pv != nil {
		o.violate("refresh-panic", "C15/refresh-panic/"+panicSite(st), "Refresh panicked: %v\nconfig=%v\n%s", pv, cfgString(cfg), short(st, 1200))
		return nil, false
	}
	return err, true
}

func cfgString(cfg map[string]string) string {
	keys := make([]string, 0, len(cfg))
	for k := range cfg {
		keys = append(keys, k)
	}
	sort.Strings(keys)
	var b strings.Builder
	for _, k := range keys {
		fmt.Fprintf(&b, "%s=%q; ", k, cfg[k])
	}
	return b.String()
}

func (c c15) runProbe(x *Exec, s *C15Scn) {
	o := x.Out
	want := probeVals{Str: "dflt", Num: 7, Big: -5, Small: 3, Port: 80, Ratio: 0.5, LvlMin: 0, LvlMax: 999, Pol: 1, Layout: "TextLayout", Width: 48}
	wantErr := ""
	kc := s.Style.KeyCase
	if s.Inline && kc == 1 {
		kc = 2
	}
	cfg := map[string]string{}
	var parts []string
	put := func(key, val string) {
		if s.Inline {
			parts = append(parts, caseKey(key, kc)+" = "+exprValue(val))
		} else {
			cfg["appender.pb."+caseKey(key, s.Style.KeyCase)] = val
		}
	}
	nontrivial := false
	for _, a := range s.Attrs {
		switch a.Name {
		case "loggerLayout":
			// a logger whose optional Layout element is absent / valid / of an unknown type
			if a.How == "none" {
				continue
			}
			cfg["logger.root.type"] = "Logger"
			cfg["logger.root."+caseKey("appenderRef", s.Style.KeyCase)+".ref"] = "pb"
			switch a.How {
			case "set":
				cfg["logger.root.layout.type"] = a.Val
			case "bad":
				cfg["logger.root.layout.type"] = "NoSuchLayout"
				wantErr = "unknown type of the logger's optional layout element"
			case "empty":
				cfg["logger.root.layout.type"] = ""
				wantErr = "unknown (empty) type of the logger's optional layout element"
			case "dangling":
				cfg["logger.root."+caseKey("appenderRef", s.Style.KeyCase)+".ref"] = "ghost"
				wantErr = "dangling appender reference"
			case "unknown-logger":
				cfg["logger.root.type"] = "NoSuchLogger"
				wantErr = "unknown logger type"
			case "unknown-appender":
				cfg["appender.other.type"] = "NoSuchAppender"
				wantErr = "unknown appender type"
			case "ref-leaf":
				// the element key holds a plain value instead of an element
				delete(cfg, "logger.root."+caseKey("appenderRef", s.Style.KeyCase)+".ref")
				cfg["logger.root."+caseKey("appenderRef", s.Style.KeyCase)] = "pb"
				wantErr = "missing required element: appenderRef is a plain value, not an element"
			case "ref-empty-list":
				delete(cfg, "logger.root."+caseKey("appenderRef", s.Style.KeyCase)+".ref")
				cfg["logger.root."+caseKey("appenderRef", s.Style.KeyCase)] = []string{"[]", "{}", "<nil>"}[len(a.Val)%3]
				wantErr = "missing required element: appenderRef is an empty collection"
			case "no-ref":
				delete(cfg, "logger.root."+caseKey("appenderRef", s.Style.KeyCase)+".ref")
				cfg["logger.root.level"] = "INFO"
				wantErr = "missing required element: a Logger without any appender reference"
			}
			continue
		case "layout":
			switch a.How {
			case "set":
				put("layout.type", a.Val)
				want.Layout = a.Val
			case "bad":
				put("layout.type", "NoSuchLayout")
				wantErr = "unknown layout type"
			case "untyped":
				// the element is present (it has an attribute) but names no plugin type
				put("layout.fileLineLength", "33")
				wantErr = "element layout present without a type"
			}
			continue
		case "width":
			if a.How == "set" {
				hasLayout := false
				for _, b := range s.Attrs {
					if b.Name == "layout" && (b.How == "set" || b.How == "bad") {
						hasLayout = true
					}
				}
				if hasLayout {
					put("layout.fileLineLength", a.Val)
					want.Width, _ = strconv.Atoi(a.Val)
				}
			}
			continue
		}
		var ak attrKind
		for _, k := range probeAttrs {
			if k.name == a.Name {
				ak = k
			}
		}
		val := a.Val
		switch a.How {
		case "omit":
			nontrivial = true
			if ak.req {
				wantErr = "required attribute " + a.Name + " missing"
			}
			continue
		case "set":
			put(a.Name, val)
		case "prop":
			nontrivial = true
			prop := "prop_" + a.Name
			cfg[caseKey(prop, s.Style.KeyCase)] = val
			// white space around a value is insignificant, around a placeholder too
			put(a.Name, []string{"", "", " ", "\t"}[len(val)%4]+"${"+prop+"}"+[]string{"", " ", "", "\n"}[len(a.Name)%4])
		case "chain":
			nontrivial = true
			p1, p2 := "chain_"+a.Name, "target_"+a.Name
			cfg[caseKey(p1, s.Style.KeyCase)] = "${" + caseKey(p2, s.Style.KeyCase) + "}"
			cfg[caseKey(p2, s.Style.KeyCase)] = val
			put(a.Name, "${"+p1+"}")
			// ${key} is replaced by the property's value, which here is the text "${target...}"
			val = "${" + caseKey(p2, s.Style.KeyCase) + "}"
			if ak.kind != "str" {
				wantErr = fmt.Sprintf("ill-typed %s: the substituted value %q does not convert to %s", a.Name, val, ak.kind)
				continue
			}
		case "missing-prop":
			nontrivial = true
			put(a.Name, "${absent_"+a.Name+"}")
			wantErr = "property for " + a.Name + " absent"
			continue
		case "node-prop":
			nontrivial = true
			put(a.Name, "${appender}")
			wantErr = "property for " + a.Name + " absent: 'appender' is a section of the configuration, not a top-level property"
			continue
		case "odd-prop":
			nontrivial = true
			prop := "odd_" + a.Name
			cfg[caseKey(prop, s.Style.KeyCase)] = val
			put(a.Name, "${"+prop+"}")
			if ak.kind != "str" {
				wantErr = fmt.Sprintf("ill-typed %s: the substituted value %q does not convert to %s", a.Name, val, ak.kind)
				continue
			}
		case "bad":
			nontrivial = true
			put(a.Name, val)
			class := "ill-typed"
			if _, err := strconv.ParseFloat(val, 64); err == nil && val != "" {
				class = "out-of-range"
			}
			wantErr = fmt.Sprintf("%s %s=%q does not convert to %s", class, a.Name, val, ak.kind)
			continue
		}
		// expected value
		switch a.Name {
		case "str":
			want.Str = strings.TrimSpace(val)
		case "reqStr":
			want.Req = strings.TrimSpace(val)
		case "num":
			n, _ := strconv.ParseInt(val, 10, 64)
			want.Num = int(n)
		case "bigNum":
			want.Big, _ = strconv.ParseInt(val, 10, 64)
		case "smallNum":
			n, _ := strconv.ParseInt(val, 10, 8)
			want.Small = int8(n)
		case "portNo":
			n, _ := strconv.ParseUint(val, 10, 16)
			want.Port = uint16(n)
		case "flag":
			want.Flag, _ = strconv.ParseBool(val)
		case "ratio":
			want.Ratio, _ = strconv.ParseFloat(val, 64)
		case "lvl":
			r, _ := modelRange(val)
			want.LvlMin, want.LvlMax = r.Min, r.Max
		case "overflowPolicy":
			want.Pol = map[string]int{"Block": 0, "Discard": 1, "DiscardOldest": 2}[val]
		}
	}
	if s.Inline {
		cfg["appender.pb!"] = "Probe{" + strings.Join(parts, ", ") + "}"
	} else {
		cfg["appender.pb.type"] = "Probe"
	}
	err, ok := c.refresh(x, cfg)
	if !ok {
		return
	}
	o.Reached = nontrivial || wantErr != ""
	defer x.do("destroy", func() { call(log.Destroy) })
	if wantErr != "" {
		if err == nil {
			kind := strings.Fields(wantErr)[0]
			o.violate("error-expected", "C15/invalid-attribute-accepted/"+kind, "Refresh must fail (%s) but succeeded; got plugin values %+v\nconfig: %s", wantErr, probeGot["pb"], cfgString(cfg))
		}
		return
	}
	if err != nil {
		o.violate("valid-rejected", "C15/valid-attributes-rejected", "Refresh rejected a valid plugin configuration: %v\nconfig: %s", err, cfgString(cfg))
		return
	}
	probeMu.Lock()
	got, seen := probeGot["pb"]
	probeMu.Unlock()
	if !seen {
		o.violate("not-started", "C15/plugin-not-started", "the configured appender was never started")
		return
	}
	if got != want {
		o.violate("wrong-values", "C15/attribute-values-differ", "plugin fields differ from configured/default values\n got  %+v\n want %+v\nconfig: %s", got, want, cfgString(cfg))
	}
}

// runTypes builds the configuration that contains every registered type, uses and destroys it.
func (c c15) runTypes(x *Exec, s *C15Scn, cfg map[string]string, mustSucceed bool) {
	o := x.Out
	var tags []*log.Tag
	for i := 1; i <= 7; i++ {
		tags = append(tags, log.RegisterTag(fmt.Sprintf("t%d_x", i)))
	}
	tags = append(tags, log.TagAppDef)
	h := log.GetLogger("l2")
	err, ok := c.refresh(x, cfg)
	if !ok {
		return
	}
	o.Reached = true
	if err != nil {
		if mustSucceed {
			o.violate("valid-rejected", "C15/all-types-configuration-rejected", "a configuration instantiating every registered type was rejected: %v\nconfig: %s", err, cfgString(cfg))
		}
		if n := x.FS.OpenCount(); n != 0 {
			o.violate("descriptor-after-failed-refresh", "C15/descriptor-open-after-failed-refresh", "Refresh failed (%v) but %d descriptors stay open: %v", err, n, x.FS.Handles())
		}
		return
	}
	if s.Mode == "iofail" {
		_, fired := x.FS.Counters()
		n := 0
		for _, v := range fired {
			n += v
		}
		if n > 0 {
			o.violate("start-failure-ignored", "C15/start-failure-ignored", "an open failure was injected during start-up (%v) but Refresh returned nil", fired)
		}
	}
	var panics []string
	x.do("use", func() {
		for i, t := range tags {
			for j, lvl := range []string{"DEBUG", "WARN", "FATAL"} {
				sb := emit(0, i*10+j, t, "t", EvOp{Kind: 14, Size: 5}, levelByName(lvl))
				if sb.Panic != nil {
					panics = append(panics, fmt.Sprintf("%v at %s", sb.Panic, sb.PanicAt))
				}
			}
		}
		if pv, st := call(func() { h.Write([]byte("raw through handle\n")) }); pv != nil {
			panics = append(panics, fmt.Sprintf("handle write: %v at %s", pv, panicSite(st)))
		}
	})
	if st := x.clientsStuck(); len(st) > 0 {
		o.violate("use-blocked", "C15/logging-blocked-after-accepted-config", "logging through an accepted configuration blocked: %v", st)
		return
	}
	if len(panics) > 0 {
		o.violate("use-panic", "C15/logging-panics-after-accepted-config", "logging through a configuration Refresh accepted panicked: %s\nconfig: %s", panics[0], cfgString(cfg))
	}
	var pv any
	var st string
	if !x.do("destroy", func() { pv, st = call(log.Destroy) }) {
		o.violate("destroy-blocked", "C15/destroy-blocked-after-accepted-config", "Destroy blocked: %v", x.clientsStuck())
		return
	}
	if pv != nil {
		o.violate("destroy-panic", "C15/destroy-panic/"+panicSite(st), "Destroy panicked: %v", pv)
	}
	judgeDied(x, "C15")
	if n := x.FS.OpenCount(); n != 0 {
		o.violate("descriptor-after-destroy", "C15/descriptor-open-after-destroy", "%d descriptors open after Destroy", n)
	}
}

// runDflt: attributes whose declared default is a ${placeholder}. Variants by map seed: both
// properties present; the string one absent; the int one absent; the int one ill-typed; both
// attributes configured directly (defaults unused, properties absent).
func (c c15) runDflt(x *Exec, s *C15Scn) {
	o := x.Out
	variant := int(s.Knobs.MapSeed % 5)
	cfg := map[string]string{"appender.p2.type": "Probe2", "logger.root.type": "Logger", "logger.root." + caseKey("appenderRef", s.Style.KeyCase) + ".ref": "p2"}
	wantErr, wantDir, wantCap := "", "/var/log/app", 4096
	switch variant {
	case 0:
		cfg["probe_dir"], cfg["probe_cap"] = "/var/log/app", "4096"
	case 1:
		cfg["probe_cap"] = "4096"
		wantErr = "property probe_dir behind a declared default is absent"
	case 2:
		cfg["probe_dir"] = "/var/log/app"
		wantErr = "property probe_cap behind a declared default is absent"
	case 3:
		cfg["probe_dir"], cfg["probe_cap"] = "/var/log/app", "lots"
		wantErr = "ill-typed value behind a declared default"
	case 4:
		cfg["appender.p2.dir"], cfg["appender.p2.cap"] = "elsewhere", "7"
		wantDir, wantCap = "elsewhere", 7
	}
	probe2Got.Lock()
	probe2Got.set = false
	probe2Got.Unlock()
	err, ok := c.refresh(x, cfg)
	if !ok {
		return
	}
	o.Reached = true
	defer x.do("destroy", func() { call(log.Destroy) })
	if wantErr != "" {
		if err == nil {
			o.violate("error-expected", "C15/invalid-attribute-accepted/placeholder-default", "Refresh must fail (%s) but succeeded with dir=%q cap=%d\nconfig: %s", wantErr, probe2Got.dir, probe2Got.cap, cfgString(cfg))
		}
		return
	}
	if err != nil {
		o.violate("valid-rejected", "C15/valid-attributes-rejected", "Refresh rejected a plugin whose defaults are placeholders for existing properties: %v\nconfig: %s", err, cfgString(cfg))
		return
	}
	probe2Got.Lock()
	dir, capv := probe2Got.dir, probe2Got.cap
	probe2Got.Unlock()
	if dir != wantDir || capv != wantCap {
		o.violate("wrong-values", "C15/attribute-values-differ", "plugin with placeholder defaults got dir=%q cap=%d, expected %q %d\nconfig: %s", dir, capv, wantDir, wantCap, cfgString(cfg))
	}
}

var lateTypes atomic.Int64

// runLate: a plugin type registered after the library has already resolved types once (a first
// configuration was live and destroyed) is a registered type like any other.
func (c c15) runLate(x *Exec, s *C15Scn) {
	o := x.Out
	first := (&SysSpec{Style: s.Style, Props: map[string]string{}, Apps: []AppSpec{{Name: "a", Type: "Discard"}},
		Logs: []LogSpec{{Name: "root", Type: "Logger", Refs: []RefSpec{{Ref: "a"}}}}}).Render()
	if err, ok := c.refresh(x, first); !ok || err != nil {
		if ok {
			o.violate("valid-rejected", "C15/valid-attributes-rejected", "a minimal configuration was rejected: %v", err)
		}
		return
	}
	x.do("destroy", func() { call(log.Destroy) })
	name := fmt.Sprintf("LateRec%d", lateTypes.Add(1))
	if pv, _ := call(func() { log.RegisterPlugin[RecAppender](name, log.PluginTypeAppender) }); pv != nil {
		o.violate("register-panic", "C15/register-plugin-after-destroy-panicked", "RegisterPlugin after Destroy panicked: %v", pv)
		return
	}
	second := (&SysSpec{Style: s.Style, Props: map[string]string{}, Apps: []AppSpec{{Name: "late", Type: name}},
		Logs: []LogSpec{{Name: "root", Type: "Logger", Refs: []RefSpec{{Ref: "late"}}}}}).Render()
	err, ok := c.refresh(x, second)
	if !ok {
		return
	}
	o.Reached = true
	defer x.do("destroy", func() { call(log.Destroy) })
	if err != nil {
		o.violate("valid-rejected", "C15/registered-type-cannot-be-instantiated", "appender type %q was registered (after a first configuration had been live) but Refresh says: %v", name, err)
		return
	}
	x.do("use", func() { emit(0, 0, log.TagAppDef, "_app_def", EvOp{Kind: 2, Size: 3}, log.ErrorLevel) })
	if n := len(getRec("late").snapshot()); n != 1 {
		o.violate("element-lost", "C15/registered-type-cannot-be-instantiated", "the appender of the late-registered type received the event %d times", n)
	}
}

// runMany: one logger with s.Many indexed appender references; every one of them is an element
// of the list - each receives the event, and a dangling reference at any index is an error.
func (c c15) runMany(x *Exec, s *C15Scn) {
	o := x.Out
	st := s.Style
	st.Indexed, st.Inline = true, 0
	sp := &SysSpec{Style: st, Props: map[string]string{"enableCaller": "false"}}
	lg := LogSpec{Name: "root", Type: "Logger"}
	for i := 0; i < s.Many; i++ {
		name := fmt.Sprintf("m%d", i)
		sp.Apps = append(sp.Apps, AppSpec{Name: name, Type: "Rec"})
		if s.BadAt == i+1 {
			name = "ghost"
		}
		lg.Refs = append(lg.Refs, RefSpec{Ref: name})
	}
	sp.Logs = []LogSpec{lg}
	cfg := sp.Render()
	err, ok := c.refresh(x, cfg)
	if !ok {
		return
	}
	o.Reached = s.Many > 10
	defer x.do("destroy", func() { call(log.Destroy) })
	if s.BadAt > 0 {
		if err == nil {
			o.violate("error-expected", "C15/invalid-attribute-accepted/dangling-in-long-list", "Refresh must fail: reference %d of %d names no appender, but it succeeded", s.BadAt, s.Many)
		}
		return
	}
	if err != nil {
		o.violate("valid-rejected", "C15/valid-attributes-rejected", "Refresh rejected a logger with %d valid appender references: %v", s.Many, err)
		return
	}
	x.do("use", func() { emit(0, 0, log.TagAppDef, "_app_def", EvOp{Kind: 2, Size: 3}, log.ErrorLevel) })
	for i := 0; i < s.Many; i++ {
		if n := len(getRec(fmt.Sprintf("m%d", i)).snapshot()); n != 1 {
			o.violate("element-lost", "C15/indexed-list-element-ignored", "reference %d of %d received the event %d times: every indexed element belongs to the list", i, s.Many, n)
			return
		}
	}
}

func (c c15) runMutate(x *Exec, s *C15Scn) {
	sp := fullConfig(s.Style)
	cfg := sp.Render()
	keys := make([]string, 0, len(cfg))
	for k := range cfg {
		keys = append(keys, k)
	}
	sort.Strings(keys)
	r := s.MutSeed
	next := func(n int) int {
		r = splitmix(r)
		return int(r % uint64(n))
	}
	garbage := []string{"", "???", "-1", "99999999999999999999", "${nope}", "${", "{}", "[]", "<nil>", "Logger{", "true", "\x00", "a.b", "root", "${x_}", "${x-}", "${-}", "${}", "${appender}", "Discard{note_ = 1}", "Discard{a__b = 1}"}
	for _, mut := range s.Muts {
		k := keys[next(len(keys))]
		switch mut {
		case "drop":
			delete(cfg, k)
		case "garbage":
			cfg[k] = garbage[next(len(garbage))]
		case "empty-value":
			cfg[k] = ""
		case "dup-case":
			cfg[caseKey(k, 1+next(2))] = garbage[next(len(garbage))]
		case "conflict":
			cfg[k+".sub"] = "x"
		case "unknown-key":
			cfg[k+"Extra"] = "y"
			cfg["totally.unknown[3].key"] = "z"
		case "truncate-expr":
			if strings.HasSuffix(k, "!") && len(cfg[k]) > 2 {
				cfg[k] = cfg[k][:1+next(len(cfg[k])-1)]
			} else {
				cfg[k+"!"] = "Logger{ level = "
			}
		case "key-trailing-sep":
			// degenerate spellings of a key: a separator with nothing behind it
			v := cfg[k]
			delete(cfg, k)
			cfg[strings.TrimSuffix(k, "!")+[]string{"_", "-", "__", "-_"}[next(4)]] = v
		case "key-double-sep":
			v := cfg[k]
			delete(cfg, k)
			k2 := caseKey(k, 1+next(2))
			k2 = strings.Replace(strings.Replace(k2, "_", "__", 1), "-", "--", 1)
			cfg[k2] = v
		case "key-odd-chars":
			cfg[[]string{"_", "-", "a._", "logger.root.-", "appender.con.layout._x", "x!", "!"}[next(7)]] = "1"
		case "index-gap":
			cfg["logger.l1.appenderRef[7].ref"] = "rec"
		case "bad-type":
			if strings.HasSuffix(k, "type") || strings.HasSuffix(k, "Type") {
				cfg[k] = "NoSuchPlugin"
			} else {
				cfg[k] = "Logger"
			}
		}
	}
	c.runTypes(x, s, cfg, false)
}
