package harness

import (
	"context"
	"bytes"
	"encoding/json"
	"fmt"
	"strings"
	"time"

	log "github.com/go-spring/log"
	"github.com/go-spring/log/verifsim"
	"pgregory.net/rapid"
)

// C10 — context hooks and lazy generators run exactly once iff the event is emitted.

type C10Scn struct {
	Knobs    SimKnobs `json:"knobs"`
	Mode     string   `json:"mode"` // builtin | sync | async
	Level    string   `json:"level,omitempty"`
	TimeHook bool     `json:"time_hook"`
	StrHook  bool     `json:"str_hook"`
	FldHook  bool     `json:"fld_hook"`
	Ops      [][]EvOp `json:"ops"`
	RecLvl   []string `json:"record_levels"` // level for Record ops, indexed by op position modulo
	Clock    int      `json:"clock_moves"`   // clock advances the scheduler may take
	HooksLate bool    `json:"hooks_late,omitempty"`   // the hooks are assigned after Refresh, not before
	ConLayout string  `json:"console_layout,omitempty"` // sync/async: a second reference to a Console appender with this layout
	Shared   bool     `json:"shared_context,omitempty"` // every call of every task passes the same context object
	Dyn      bool     `json:"dynamic_level,omitempty"` // sync: an application-defined logger whose level is set after Refresh (it enables everything while Refresh runs)
	Overflow bool     `json:"overflow,omitempty"`  // async logger (Discard policy) driven into overflow first: records emitted afterwards still carry exactly their own call's hook results
	RefLevel string   `json:"ref_level,omitempty"` // sync/async: the only reference carries a level of its own (what the appender accepts is not what the logger enables)
	Rolling  bool     `json:"rolling_ref,omitempty"` // sync/async: one more reference, to a RollingFile appender (a component with a clock of its own)
	Style    Style    `json:"style"`
}

func (s *C10Scn) knobs() SimKnobs { return s.Knobs }

type c10 struct{}

func init() { register(c10{}) }

func (c10) ID() string    { return "C10" }
func (c10) Level() string { return "exploration" }
func (c10) Rule() string {
	return "case = logger in one of three life-cycle positions (built-in console logger before any Refresh; sync Logger; AsyncLogger after Refresh with a random level range), each of the three hooks set or unset, 1-4 concurrent client tasks calling all 15 entry points (lazy generators for Trace/Debug) with contexts that request a context string and/or context fields, the simulated clock moved by the scheduler between calls. Oracle per call: if the level is enabled for the serving logger every set hook and the lazy generator ran exactly once with that call's context, the record carries the hook's time (or, hook unset, a simulated-clock reading taken inside the call), the context string, and the context fields ahead of the call's fields; if disabled nothing ran and nothing was emitted. Non-trivial = at least one enabled and one disabled call, plus at least one preemption for multi-task cases; distinct = distinct hashes of (scenario, context-switch trace). Every hook also compares Err()/Deadline() of the context it is handed with the caller's (live, cancelled, expired) and reports contexts that belong to no call; one request scope uses context keys that coincide with layout member names (level, tag) and the rendered console line must contain the context fields as the field encoder renders them; a quarter of the configurations reference a RollingFile appender as well."
}
func (c10) Decode(raw json.RawMessage) (any, error) {
	var s C10Scn
	err := json.Unmarshal(raw, &s)
	return &s, err
}

func (c10) Gen(rt *rapid.T, thorough bool) any {
	s := &C10Scn{Knobs: genKnobs(rt), Style: genStyle(rt)}
	s.Mode = rapid.SampledFrom([]string{"builtin", "sync", "async"}).Draw(rt, "mode")
	s.Level = rapid.SampledFrom([]string{"", "INFO", "DEBUG~ERROR", "WARN", "trace~info"}).Draw(rt, "level")
	s.TimeHook, s.StrHook, s.FldHook = rapid.Bool().Draw(rt, "th"), rapid.Bool().Draw(rt, "sh"), rapid.Bool().Draw(rt, "fh")
	nt := rapid.IntRange(1, 4).Draw(rt, "tasks")
	for t := 0; t < nt; t++ {
		n := rapid.IntRange(1, 8).Draw(rt, "nops")
		var ops []EvOp
		for i := 0; i < n; i++ {
			ctx := rapid.IntRange(0, 3).Draw(rt, "ctx")
			switch rapid.IntRange(0, 7).Draw(rt, "ctx_done") {
			case 0:
				ctx |= 4 // already cancelled
			case 1:
				ctx |= 8 // deadline exceeded
			case 2:
				ctx |= 16 // the timestamp hook answers with the zero time for this context
			}
			ops = append(ops, EvOp{Kind: rapid.IntRange(0, 14).Draw(rt, "kind"), Size: rapid.SampledFrom([]int{0, 12}).Draw(rt, "size"), Ctx: ctx})
		}
		s.Ops = append(s.Ops, ops)
	}
	for i := 0; i < 4; i++ {
		s.RecLvl = append(s.RecLvl, rapid.SampledFrom(levelNames).Draw(rt, "reclvl"))
	}
	s.Clock = rapid.IntRange(0, 3).Draw(rt, "clock")
	s.HooksLate = rapid.IntRange(0, 3).Draw(rt, "hooks_late") == 0
	s.ConLayout = rapid.SampledFrom([]string{"", "JSONLayout", "TextLayout"}).Draw(rt, "con_layout")
	s.Rolling = rapid.IntRange(0, 3).Draw(rt, "rolling_ref") == 0
	s.Overflow = rapid.IntRange(0, 9).Draw(rt, "overflow10") == 0
	// s.Shared (one context object for all calls) is not generated: the per-call oracles below key
	// their bookkeeping on the context value, a shared context needs oracles of its own (open gap, DESIGN 10.16)
	s.Shared = false
	s.Dyn = s.Mode == "sync" && rapid.IntRange(0, 3).Draw(rt, "dyn_level") == 0
	if s.Dyn {
		s.ConLayout, s.Rolling = "", false
	}
	if rapid.IntRange(0, 3).Draw(rt, "ref_level") == 0 {
		s.RefLevel = rapid.SampledFrom([]string{"INFO", "WARN~FATAL", "ERROR", "debug~info"}).Draw(rt, "ref_level_v")
		s.ConLayout, s.Rolling = "", false
		if s.Dyn {
			s.RefLevel = ""
		}
	}
	return s
}

// runOverflow: an AsyncLogger with the Discard policy is filled beyond its capacity while its worker
// is held (so some events are discarded after the hooks ran), then drained; what is logged
// afterwards must carry exactly its own context string, context fields and time.
func (c10) runOverflow(x *Exec, s *C10Scn) {
	o := x.Out
	installHooks(true, true, true)
	tag := log.RegisterTag("hook_tag")
	rec := getRec("rec")
	rec.SetGate()
	spec := &SysSpec{Style: s.Style, Props: map[string]string{}, Apps: []AppSpec{{Name: "rec", Type: "Rec"}},
		Logs: []LogSpec{{Name: "lg", Type: "AsyncLogger", Tags: []string{"hook_*"}, BufferSize: 100, Policy: "Discard", Refs: []RefSpec{{Ref: "rec"}}}}}
	cfg := spec.Render()
	var err error
	if !x.do("refresh", func() { call(func() { err = log.Refresh(cfg) }) }) || err != nil {
		o.violate("refresh-failed", "C10/refresh-failed/overflow", "Refresh failed on a valid configuration: %v", err)
		return
	}
	var late []*Submitted
	x.Sim.Spawn("client0", func() {
		for i := 0; i < 125; i++ {
			emit(0, i, tag, "hook_tag", EvOp{Kind: 2, Size: 4, Ctx: 3}, log.ErrorLevel)
		}
	})
	x.Sim.Run(x.harnessTasksDone)
	drain := func() {
		for round := 0; round < 100000; round++ {
			x.Sim.Run(nil)
			if !rec.CanOpen() {
				return
			}
			rec.Open()
		}
	}
	drain()
	x.Sim.Spawn("client1", func() {
		for i := 0; i < 8; i++ {
			late = append(late, emit(1, 500+i, tag, "hook_tag", EvOp{Kind: i % 3, Size: 4, Ctx: 1 + i%3}, log.InfoLevel))
		}
	})
	drain()
	x.Sim.Spawn("stopper", log.Destroy)
	drain()
	judgeDied(x, "C10")
	x.Sim.Close()
	byID := map[string][]*RecEvent{}
	for _, it := range rec.snapshot() {
		if it.Ev != nil {
			byID[it.Ev.ID] = append(byID[it.Ev.ID], it.Ev)
		}
	}
	o.Reached = len(rec.snapshot()) < 125+8 // something was discarded
	for _, sb := range late {
		evs := byID[sb.ID]
		if len(evs) != 1 {
			o.violate("emit-count", fmt.Sprintf("C10/emitted-%d-times-expected-1", len(evs)), "%s logged after the overflow was emitted %d times", sb.ID, len(evs))
			continue
		}
		k := evKey{task: sb.Task, seq: sb.Seq}
		mode := 1 + (sb.Seq-500)%3
		k.ctxMode = mode
		var want []log.Field
		if mode&2 != 0 {
			want = append(want, ctxFields(k)...)
		}
		want = append(want, sb.Fields...)
		var buf bytes.Buffer
		enc := log.NewJSONEncoder(&buf)
		enc.AppendEncoderBegin()
		log.EncodeFields(enc, want)
		enc.AppendEncoderEnd()
		wantCtx := ""
		if mode&1 != 0 {
			wantCtx = ctxString(k)
		}
		if evs[0].Fields != buf.String() || evs[0].Ctx != wantCtx {
			o.violate("record-content", "C10/record-content/after-overflow", "%s logged after an overflow carries fields %s and context %q; its own call produced %s and %q", sb.ID, short(evs[0].Fields, 220), evs[0].Ctx, short(buf.String(), 220), wantCtx)
		}
	}
}

func (c c10) Run(x *Exec, scn any) {
	s := scn.(*C10Scn)
	o := x.Out
	o.ScnDistinct = true
	if s.Overflow {
		c.runOverflow(x, s)
		return
	}
	if !s.HooksLate || s.Mode == "builtin" {
		installHooks(s.TimeHook, s.StrHook, s.FldHook)
	}
	tag := log.RegisterTag("hook_tag")
	lr := mRange{0, 999, false}
	if s.Mode != "builtin" {
		typ := "Logger"
		if s.Mode == "async" {
			typ = "AsyncLogger"
		}
		spec := &SysSpec{Style: s.Style, Props: map[string]string{},
			Apps: []AppSpec{{Name: "rec", Type: "Rec"}},
			Logs: []LogSpec{{Name: "lg", Type: typ, Tags: []string{"hook_*"}, Level: s.Level, Refs: []RefSpec{{Ref: "rec", Level: s.RefLevel}}}}}
		if s.Dyn {
			spec.Apps = []AppSpec{{Name: "unused", Type: "Discard"}}
			spec.Logs = []LogSpec{{Name: "lg", Type: "RecLogger", Tags: []string{"hook_*"}, RecName: "rec"}}
		}
		if s.ConLayout != "" && !s.Dyn {
			// a second reference with the same (absent) bounds: both receive every enabled event
			spec.Apps = append(spec.Apps, AppSpec{Name: "con", Type: "Console", Layout: s.ConLayout})
			spec.Logs[0].Refs = append(spec.Logs[0].Refs, RefSpec{Ref: "con"})
		}
		if s.Rolling && !s.Dyn {
			x.FS.MkdirAll("/logs")
			spec.Apps = append(spec.Apps, AppSpec{Name: "roll", Type: "RollingFile", FileDir: "/logs", FileName: "c10.log", Rotation: "h", MaxAge: 100000})
			spec.Logs[0].Refs = append(spec.Logs[0].Refs, RefSpec{Ref: "roll"})
		}
		cfg := spec.Render()
		var err error
		var pv any
		var st string
		x.do("refresh", func() { pv, st = call(func() { err = log.Refresh(cfg) }) })
		if pv != nil || err != nil {
			o.violate("refresh-failed", "C10/refresh-failed/"+panicSite(st), "Refresh failed on a valid configuration: %v %v", pv, err)
			return
		}
		lr, _ = modelRange(s.Level)
		if s.Dyn {
			// the serving logger's level is what it answers when asked, now
			dynMu.Lock()
			dl := dynLoggers["rec"]
			dynMu.Unlock()
			if dl == nil {
				panic("harness: the application-defined logger was not started")
			}
			dl.SetLevel(levelRangeOf(lr))
		}
		if s.HooksLate {
			// hooks are plain package variables: assigning them after Refresh must work as well
			installHooks(s.TimeHook, s.StrHook, s.FldHook)
		}
	}
	sharedKey := evKey{task: 77, seq: 0, ctxMode: 3}
	if s.Shared {
		emitSharedCtx = context.WithValue(context.Background(), ctxKey, sharedKey)
		defer func() { emitSharedCtx = nil }()
	}
	type callRec struct {
		sb             *Submitted
		before, after  time.Time
		kind           int
	}
	calls := make([][]*callRec, len(s.Ops))
	for t := range s.Ops {
		x.Sim.Spawn(fmt.Sprintf("client%d", t), func() {
			for i, op := range s.Ops[t] {
				lvl := levelByName(s.RecLvl[(t+i)%len(s.RecLvl)])
				c := &callRec{before: verifsim.Now(), kind: op.Kind}
				c.sb = emit(t, i, tag, "hook_tag", op, lvl)
				c.after = verifsim.Now()
				calls[t] = append(calls[t], c)
				verifsim.Yield("client.between")
			}
		})
	}
	moves := 0
	x.Sim.AddEnv(&verifsim.EnvAction{Name: "clock", Enabled: func() bool { return moves < s.Clock },
		Run: func() { moves++; x.Sim.Advance(1500 * time.Millisecond) }})
	x.Sim.Run(nil)
	if st := x.clientsStuck(); len(st) > 0 {
		o.violate("log-call-blocked", "C10/log-call-blocked", "log calls did not return: %v", st)
		return
	}
	if s.Mode != "builtin" {
		x.Sim.Spawn("stopper", log.Destroy)
		x.Sim.Run(nil)
	}
	judgeDied(x, "C10")
	x.Sim.Close()

	recByID := map[string]*RecEvent{}
	recCount := map[string]int{}
	for _, it := range getRec("rec").snapshot() {
		if it.Ev != nil {
			recByID[it.Ev.ID] = it.Ev
			recCount[it.Ev.ID]++
		}
	}
	stdout := map[string][]byte{}
	for _, w := range x.FS.StdoutWrites() {
		if m := idInLine.FindSubmatch(w.Data); m != nil {
			stdout[string(m[1])] = w.Data
			if s.Mode == "builtin" {
				recCount[string(m[1])]++
			}
		}
	}
	enabledN, disabledN := 0, 0
	sharedEnabled := 0
	hooks.mu.Lock()
	defer hooks.mu.Unlock()
	defer func() {
		if !s.Shared {
			return
		}
		for _, h := range []struct {
			set  bool
			n    int
			what string
		}{{s.TimeHook, hooks.timeCalls[sharedKey], "time-hook"}, {s.StrHook, hooks.strCalls[sharedKey], "context-string-hook"}, {s.FldHook, hooks.fldCalls[sharedKey], "context-fields-hook"}} {
			want := sharedEnabled
			if !h.set {
				want = 0
			}
			if h.n != want {
				o.violate("hook-count", "C10/"+h.what+"-invocations-with-a-shared-context", "all %d enabled calls of this run pass one shared context object: the %s ran %d times, expected %d", sharedEnabled, h.what, h.n, want)
			}
		}
	}()
	if len(hooks.foreign) > 0 {
		o.violate("hook-foreign-context", "C10/hook-invoked-with-a-context-that-is-no-callers", "%d hook invocations received a context that belongs to no logging call of this run (first: %s)", len(hooks.foreign), hooks.foreign[0])
	}
	for t := range calls {
		for _, c := range calls[t] {
			sb := c.sb
			k := evKey{task: sb.Task, seq: sb.Seq, ctxMode: s.Ops[sb.Task][sb.Seq].Ctx}
			if s.Shared {
				k = sharedKey
			}
			if sb.Panic != nil {
				o.violate("log-call-panic", "C10/log-call-panic/"+sb.PanicAt, "log call %s panicked: %v", sb.ID, sb.Panic)
				continue
			}
			code := levelCodes[strings.ToUpper(sb.Level)]
			enabled := lr.has(code)
			ep := entryNames[c.kind]
			want := 0
			if enabled {
				want = 1
				enabledN++
			} else {
				disabledN++
			}
			check := func(set bool, n int, what string) {
				exp := want
				if !set {
					exp = 0
				}
				if n != exp {
					o.violate("hook-count", fmt.Sprintf("C10/%s-invoked-%d-times-expected-%d/%s", what, n, exp, map[bool]string{true: "enabled", false: "disabled"}[enabled]),
						"%s: %s (level %s, logger range %q, enabled=%v) invoked the %s %d times, expected %d", sb.ID, ep, sb.Level, s.Level, enabled, what, n, exp)
				}
			}
			if s.Shared {
				// one context for all calls: the hooks are counted over all of them (below)
				sharedEnabled += want
			} else {
				check(s.TimeHook, hooks.timeCalls[k], "time-hook")
				check(s.StrHook, hooks.strCalls[k], "context-string-hook")
				check(s.FldHook, hooks.fldCalls[k], "context-fields-hook")
			}
			if c.kind == 5 || c.kind == 6 {
				check(true, hooks.genCalls[k], "lazy-generator")
			}
			// "with the caller's context": a context is request-scoped, what it reaches may be
			// recycled once the call has returned, so the hooks have to run on the caller's
			// goroutine during the call, not later on a worker
			if bad := hooks.ctxBad[k]; len(bad) > 0 {
				o.violate("hook-context-state", "C10/hook-context-is-not-the-callers", "%s: %s", sb.ID, bad[0])
			}
			for _, who := range hooks.byTask[k] {
				if who != fmt.Sprintf("client%d", sb.Task) {
					o.violate("hook-off-caller", "C10/hook-invoked-outside-the-logging-call", "%s: a context hook for this call ran on task %q, not on the calling goroutine during the call", sb.ID, who)
					break
				}
			}
			// what the logger enables and what its only reference accepts are two things: the hooks and
			// the generator follow the logger's level, delivery needs both
			accepted := enabled
			if s.Mode != "builtin" && s.RefLevel != "" {
				rr := modelRefRanges([]RefSpec{{Ref: "rec", Level: s.RefLevel}})
				accepted = enabled && rr[0].has(code)
			}
			wantRec := 0
			if accepted {
				wantRec = 1
			}
			if recCount[sb.ID] != wantRec {
				o.violate("emit-count", fmt.Sprintf("C10/emitted-%d-times-expected-%d", recCount[sb.ID], wantRec), "%s via %s (enabled=%v, accepted by the reference=%v) was emitted %d times", sb.ID, ep, enabled, accepted, recCount[sb.ID])
				continue
			}
			if !accepted {
				continue
			}
			// content of the record
			wantCtx := ""
			if s.StrHook && k.ctxMode&1 != 0 {
				wantCtx = ctxString(k)
			}
			var wantFlds []log.Field
			if s.FldHook && k.ctxMode&2 != 0 {
				wantFlds = append(wantFlds, ctxFields(k)...)
			}
			wantFlds = append(wantFlds, sb.Fields...)
			var buf bytes.Buffer
			enc := log.NewJSONEncoder(&buf)
			enc.AppendEncoderBegin()
			log.EncodeFields(enc, wantFlds)
			enc.AppendEncoderEnd()
			if s.Mode == "builtin" {
				ref := *sb
				ref.CtxStr, ref.CtxFlds = wantCtx, nil
				if s.FldHook && k.ctxMode&2 != 0 {
					ref.CtxFlds = ctxFields(k)
				}
				got := stdout[sb.ID]
				okLine := false
				if s.TimeHook {
					okLine = bytes.Equal(got, refLine(&ref, "TextLayout", 48, true))
				} else {
					// hook unset: the wall (simulated) clock, read inside the call
					for ts := c.before.Truncate(time.Millisecond); !ts.After(c.after); ts = ts.Add(time.Millisecond) {
						ref.Time = ts
						if bytes.Equal(got, refLine(&ref, "TextLayout", 48, true)) {
							okLine = true
							break
						}
						if c.after.Sub(c.before) > 10*time.Second {
							okLine = true // window too wide to enumerate; content checked elsewhere
							break
						}
					}
				}
				if !okLine {
					o.violate("record-content", "C10/record-content/builtin", "%s: console line %q does not carry the hook results (time hook set=%v, ctx %q)", sb.ID, short(string(got), 200), s.TimeHook, wantCtx)
				}
				continue
			}
			if s.ConLayout != "" && len(wantFlds) > len(sb.Fields) {
				// independent of the layout code: the context fields, as the field encoder renders
				// them, stand in the line ahead of the call's own fields
				encode := func(fs []log.Field) string {
					var b bytes.Buffer
					if s.ConLayout == "JSONLayout" {
						e := log.NewJSONEncoder(&b)
						e.AppendEncoderBegin()
						log.EncodeFields(e, fs)
						e.AppendEncoderEnd()
						return strings.TrimSuffix(strings.TrimPrefix(b.String(), "{"), "}")
					}
					e := log.NewTextEncoder(&b, "||")
					e.AppendEncoderBegin()
					log.EncodeFields(e, fs)
					e.AppendEncoderEnd()
					return b.String()
				}
				line := string(stdout[sb.ID])
				ci, fi := strings.Index(line, encode(wantFlds[:len(wantFlds)-len(sb.Fields)])), strings.LastIndex(line, encode(sb.Fields))
				if ci < 0 || fi < 0 || ci > fi {
					o.violate("record-content", "C10/record-content/context-fields-missing-from-line/"+s.ConLayout, "%s: the console line %q does not carry the context fields %s ahead of the call's fields", sb.ID, short(line, 300), encode(wantFlds[:len(wantFlds)-len(sb.Fields)]))
				}
			}
			if s.ConLayout != "" && s.TimeHook {
				ref := *sb
				ref.CtxStr, ref.CtxFlds = wantCtx, nil
				if s.FldHook && k.ctxMode&2 != 0 {
					ref.CtxFlds = ctxFields(k)
				}
				if got := stdout[sb.ID]; !bytes.Equal(got, refLine(&ref, s.ConLayout, 48, true)) {
					o.violate("record-content", "C10/record-content/console-line", "%s: the console line %q does not carry this call's hook results; expected %q", sb.ID, short(string(got), 240), short(string(refLine(&ref, s.ConLayout, 48, true)), 240))
				}
			}
			ev := recByID[sb.ID]
			if ev.Ctx != wantCtx {
				o.violate("record-content", "C10/record-content/context-string", "%s: record has context string %q, hook returned %q", sb.ID, ev.Ctx, wantCtx)
			}
			if ev.Fields != buf.String() {
				o.violate("record-content", "C10/record-content/fields-order", "%s: record fields %s, expected context fields ahead of call fields %s", sb.ID, short(ev.Fields, 200), short(buf.String(), 200))
			}
			if s.TimeHook {
				if ev.TimeNs != evTime(k).UnixNano() {
					o.violate("record-content", "C10/record-content/hook-time", "%s: record time %v, hook returned %v", sb.ID, time.Unix(0, ev.TimeNs).UTC(), evTime(k))
				}
			} else if ev.TimeNs < c.before.UnixNano() || ev.TimeNs > c.after.UnixNano() {
				o.violate("record-content", "C10/record-content/wall-clock", "%s: no time hook; record time %v is outside the call's window [%v, %v] on the simulated clock", sb.ID, time.Unix(0, ev.TimeNs).UTC(), c.before.UTC(), c.after.UTC())
			}
			if ev.Level != code {
				o.violate("record-content", "C10/record-content/level", "%s: record level %d, expected %d", sb.ID, ev.Level, code)
			}
		}
	}
	o.Reached = enabledN > 0 && disabledN > 0 && (len(s.Ops) == 1 || x.Sim.Preemptions() > 0)
}
