package harness

import (
	"sync/atomic"
	"context"
	"time"
	"bytes"
	"fmt"
	"sync"

	log "github.com/go-spring/log"
	"github.com/go-spring/log/verifsim"
)

// RecEvent is a deep copy of an event taken at Append entry.
type RecEvent struct {
	Level     int32
	LevelName string
	TimeNs    int64
	File      string
	Line      int
	Tag       string
	Ctx       string
	Fields    string // fields + ctx fields rendered by the JSON encoder
	ID        string // value of the "id" field if present (harness payload identity)
	Step      int    // scheduler step at entry
	Task      int
	Mutated   bool // event changed between Append entry and exit (recycled while held)
	Done      int  // scheduler step at which the appender call returned (0 = still inside)
}

// RecWrite is a raw Write received by a recording appender.
type RecWrite struct {
	Data []byte
	Step int
	Task int
	Done int
}

// Item is either an event or a raw write, in arrival order.
type Item struct {
	Ev *RecEvent
	Wr *RecWrite
}

// Rec is the per-name recording state shared by harness and RecAppender.
type Rec struct {
	mu      sync.Mutex
	Name    string
	Items   []Item
	Started int
	Stopped int
	StartPanic string // a log call made from inside Start panicked
	// behaviour
	Slow    int       // yields inside Append/Write
	SleepMs int       // simulated time every item takes inside Append/Write
	gate    chan struct{}
	Gated   bool
	Waiting int // tasks currently waiting at the gate
	InFlight int
	Done    int // items fully processed (left Append/Write)
}

var (
	recMu sync.Mutex
	recs  = map[string]*Rec{}
)

func resetRecs() {
	recMu.Lock()
	recs = map[string]*Rec{}
	recMu.Unlock()
}

func getRec(name string) *Rec {
	recMu.Lock()
	defer recMu.Unlock()
	r := recs[name]
	if r == nil {
		r = &Rec{Name: name}
		recs[name] = r
	}
	return r
}

// SetGate makes the recorder hold every item until Open is called for it.
// Must be called inside the bubble (creates a channel).
func (r *Rec) SetGate() {
	r.mu.Lock()
	r.Gated = true
	r.gate = make(chan struct{})
	r.mu.Unlock()
}

// CanOpen reports whether a task is waiting at the gate.
func (r *Rec) CanOpen() bool {
	r.mu.Lock()
	defer r.mu.Unlock()
	return r.Gated && r.Waiting > 0
}

// Open lets exactly one waiting item through (root goroutine, env action).
func (r *Rec) Open() {
	r.mu.Lock()
	g := r.gate
	ok := r.Gated && r.Waiting > 0
	if ok {
		r.Waiting--
	}
	r.mu.Unlock()
	if ok {
		g <- struct{}{}
	}
}

// Ungate removes the gate; waiting items are released one by one by OpenAll.
func (r *Rec) OpenAll() {
	for r.CanOpen() {
		r.Open()
	}
	r.mu.Lock()
	r.Gated = false
	r.mu.Unlock()
}

// clear forgets what was recorded so far (a first life of the logger under test).
func (r *Rec) clear() {
	r.mu.Lock()
	r.Items, r.Done = nil, 0
	r.mu.Unlock()
}

func (r *Rec) snapshot() []Item {
	r.mu.Lock()
	defer r.mu.Unlock()
	return append([]Item(nil), r.Items...)
}

func (r *Rec) doneCount() int {
	r.mu.Lock()
	defer r.mu.Unlock()
	return r.Done
}

func (r *Rec) hold() {
	r.mu.Lock()
	slow, gated, g, sleep := r.Slow, r.Gated, r.gate, r.SleepMs
	r.InFlight++
	r.mu.Unlock()
	for i := 0; i < slow; i++ {
		verifsim.Yield("rec.slow")
	}
	if sleep > 0 {
		verifsim.Sleep("rec.sleep", time.Duration(sleep)*time.Millisecond)
	}
	if gated {
		verifsim.Yield("rec.gate")
		// counted only when about to block natively: the scheduler looks at
		// Waiting after quiescence, when this task is parked inside <-g
		r.mu.Lock()
		r.Waiting++
		r.mu.Unlock()
		<-g
		verifsim.Yield("rec.gate/post")
	}
}

func (r *Rec) release() {
	r.mu.Lock()
	r.InFlight--
	r.Done++
	r.mu.Unlock()
}

func snapEvent(e *log.Event) RecEvent {
	var buf bytes.Buffer
	enc := log.NewJSONEncoder(&buf)
	enc.AppendEncoderBegin()
	log.EncodeFields(enc, e.CtxFields)
	log.EncodeFields(enc, e.Fields)
	enc.AppendEncoderEnd()
	re := RecEvent{
		Level: e.Level.Code(), LevelName: e.Level.Name(), TimeNs: e.Time.UnixNano(), File: e.File, Line: e.Line,
		Tag: e.Tag, Ctx: e.CtxString, Fields: buf.String(),
	}
	re.ID = fieldString(e.Fields, "id")
	if re.ID == "" {
		if m := idInLine.FindStringSubmatch(re.Fields); m != nil {
			re.ID = m[1]
		}
	}
	return re
}

// fieldString extracts a string field by rendering (fields are opaque).
func fieldString(fs []log.Field, key string) string {
	for _, f := range fs {
		if f.Key == key {
			var buf bytes.Buffer
			enc := log.NewTextEncoder(&buf, "||")
			enc.AppendEncoderBegin()
			log.EncodeFields(enc, []log.Field{f})
			enc.AppendEncoderEnd()
			s := buf.String()
			if len(s) > len(key)+1 {
				return s[len(key)+1:]
			}
		}
	}
	return ""
}

// RecAppender is the recording appender plugin ("Rec").
type RecAppender struct {
	log.AppenderBase
	Slow     int  `PluginAttribute:"slow,default=0"`
	RecKey   string // recorder to use when the appender itself has no name (code-built appenders)
	StartLog bool `PluginAttribute:"startLog,default=false"` // the appender reports its own start through a tag (a component logging while Refresh is under way)
	rec      *Rec
}

func (a *RecAppender) r() *Rec {
	if a.rec == nil {
		key := a.Name
		if a.RecKey != "" {
			key = a.RecKey // appenders built in code need not carry a name
		}
		a.rec = getRec(key)
		if a.Slow > 0 {
			a.rec.Slow = a.Slow
		}
	}
	return a.rec
}

func (a *RecAppender) Start() error {
	r := a.r()
	r.mu.Lock()
	r.Started++
	r.mu.Unlock()
	if a.StartLog {
		pv, st := call(func() {
			log.Info(context.Background(), log.TagAppDef, log.String("id", "startlog"), log.String("msg", "appender "+a.Name+" started"))
		})
		if pv != nil {
			r.mu.Lock()
			r.StartPanic = fmt.Sprintf("%v at %s", pv, panicSite(st))
			r.mu.Unlock()
		}
	}
	return nil
}

func (a *RecAppender) Stop() {
	r := a.r()
	r.mu.Lock()
	r.Stopped++
	r.mu.Unlock()
}

func stepTask() (int, int) {
	step := 0
	if s := verifsim.Active(); s != nil {
		step = s.StepNo()
	}
	id, _ := verifsim.CurrentTask()
	return step, id
}

func (a *RecAppender) Append(e *log.Event) {
	r := a.r()
	verifsim.Yield("rec.Append")
	ev := snapEvent(e)
	ev.Step, ev.Task = stepTask()
	r.mu.Lock()
	r.Items = append(r.Items, Item{Ev: &ev})
	idx := len(r.Items) - 1
	r.mu.Unlock()
	r.hold()
	again := snapEvent(e)
	if again.Level != ev.Level || again.TimeNs != ev.TimeNs || again.Tag != ev.Tag || again.Fields != ev.Fields ||
		again.Ctx != ev.Ctx || again.File != ev.File || again.Line != ev.Line {
		r.mu.Lock()
		r.Items[idx].Ev.Mutated = true
		r.mu.Unlock()
	}
	d, _ := stepTask()
	r.mu.Lock()
	r.Items[idx].Ev.Done = d
	r.mu.Unlock()
	r.release()
}

func (a *RecAppender) Write(b []byte) {
	r := a.r()
	verifsim.Yield("rec.Write")
	w := RecWrite{Data: append([]byte(nil), b...)}
	w.Step, w.Task = stepTask()
	r.mu.Lock()
	r.Items = append(r.Items, Item{Wr: &w})
	idx := len(r.Items) - 1
	r.mu.Unlock()
	r.hold()
	d, _ := stepTask()
	r.mu.Lock()
	r.Items[idx].Wr.Done = d
	r.mu.Unlock()
	r.release()
}

func init() {
	log.RegisterPlugin[RecAppender]("Rec", log.PluginTypeAppender)
	log.RegisterPlugin[RecLogger]("RecLogger", log.PluginTypeLogger)
}

// RecLogger is an application-defined logger plugin: it owns its target (a recorder), does not
// embed LoggerBase, has no "name" attribute (GetName answers with its kind, the same for every
// instance) and its level can be changed while it is live.
type RecLogger struct {
	Tags    string         `PluginAttribute:"tags,default="`
	Level   log.LevelRange `PluginAttribute:"level,default="`
	RecName string         `PluginAttribute:"recName"`
	dyn     atomic.Pointer[log.LevelRange]
}

var (
	dynMu      sync.Mutex
	dynLoggers = map[string]*RecLogger{}
)

func (l *RecLogger) GetName() string { return "reclogger" }
func (l *RecLogger) GetTags() string { return l.Tags }
func (l *RecLogger) GetLevel() log.LevelRange {
	if d := l.dyn.Load(); d != nil {
		return *d
	}
	return l.Level
}

// SetLevel changes the level of the live logger.
func (l *RecLogger) SetLevel(r log.LevelRange) { l.dyn.Store(&r) }

func (l *RecLogger) Start() error {
	dynMu.Lock()
	dynLoggers[l.RecName] = l
	dynMu.Unlock()
	return nil
}
func (l *RecLogger) Stop() {}
func (l *RecLogger) Append(e *log.Event) {
	if l.GetLevel().Enable(e.Level) {
		(&RecAppender{AppenderBase: log.AppenderBase{Name: l.RecName}}).Append(e)
	}
	log.PutEvent(e)
}
func (l *RecLogger) Write(b []byte) {
	(&RecAppender{AppenderBase: log.AppenderBase{Name: l.RecName}}).Write(b)
}

func (it Item) String() string {
	if it.Ev != nil {
		return fmt.Sprintf("ev{%s %s %s}", it.Ev.LevelName, it.Ev.Tag, short(it.Ev.Fields, 60))
	}
	return fmt.Sprintf("wr{%q}", short(string(it.Wr.Data), 60))
}

// InFlightCount is the number of appender calls currently inside this recorder.
func (r *Rec) InFlightCount() int {
	r.mu.Lock()
	defer r.mu.Unlock()
	return r.InFlight
}
