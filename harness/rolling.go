package harness

import (
	"encoding/json"
	"fmt"
	"regexp"
	"sort"
	"strings"
	"syscall"
	"time"

	log "github.com/go-spring/log"
	"github.com/go-spring/log/verifsim"
	"github.com/go-spring/log/verifsim/simos"
	"pgregory.net/rapid"
)

// Shared machinery for the rolling file appender properties C13, C19, C14.

var intervals = map[string]time.Duration{"1s": time.Second, "2s": 2 * time.Second, "10m": 10 * time.Minute, "h": time.Hour}

// clock decision kinds (environment action "clock")
const (
	ckPlus1ms = iota
	ckPlus100ms
	ckBeforeBoundary // to 1 ms before the next boundary
	ckToBoundary     // exactly onto the next boundary
	ckAfterBoundary  // 1 ms past the next boundary
	ckPlusInterval   // + one interval
	ckPlus3Intervals // + three intervals (idle across whole intervals)
	ckPlus100us      // + 100 microseconds
	ckBefore100us    // to 100 microseconds before the next boundary
	ckAfter100us     // 100 microseconds past the next boundary
	ckBackInterval   // the wall clock jumps BACK by one interval (robustness only: C19)
)

type OutageOp struct {
	Kind string `json:"kind"` // rename | emfile | enospc | eacces | restore
}

type PopFile struct {
	Name   string `json:"name"`
	AgeH   int    `json:"age_h"` // mtime = start - AgeH hours - AgeMin minutes
	AgeMin int    `json:"age_min,omitempty"`
	Dir    bool   `json:"dir,omitempty"`
	Size   int    `json:"size"`
}

type RollScn struct {
	Knobs    SimKnobs   `json:"knobs"`
	Interval string     `json:"interval"`
	Writers  [][]int    `json:"writers"` // per writer: payload sizes
	Clock    []int      `json:"clock"`   // clock decisions available to the scheduler, in order
	Pre      bool       `json:"pre_existing,omitempty"`
	Restarts int        `json:"restarts,omitempty"` // stop/start cycles performed by a controller task between writer phases
	MaxAge   int        `json:"max_age"`
	Outage   []OutageOp `json:"outage,omitempty"` // C19: fault actions available to the scheduler, in order
	Pop      []PopFile  `json:"population,omitempty"`
	Separate bool       `json:"separate,omitempty"` // C14: sibling appender name.wf in the same directory
	FaultDir []string   `json:"dir_faults,omitempty"` // C14: readdir | info | remove failures
	Static   string     `json:"static,omitempty"`     // C19b: file-closed | file-unstarted | console-fails
	ViaLogger bool      `json:"via_logger,omitempty"` // C14: the sibling pair is built by a RollingFileLogger (separate=true)
	MaxAge2  int        `json:"max_age_sibling,omitempty"` // C14: retention of the sibling .wf appender when it differs from the first one's
	Restart14 bool      `json:"restart_before,omitempty"` // C14: the appender object is stopped and started again before the run
	Name     string     `json:"file_name,omitempty"`  // C13: file name of the appender (default app.log)
	Touch    bool       `json:"touch,omitempty"`      // C14: an outside party refreshes the modification time of old files during the run
	ViaAppend bool      `json:"via_append,omitempty"` // C13: every other write is an event handed to Append, stamped by the application's clock (TimeNow hook), not the wall clock
	Twin     bool       `json:"twin,omitempty"`       // C13: a second live appender object on the same directory and name (odd writers use it)
	SubDir   bool       `json:"sub_dir_name,omitempty"` // C14: the fileName carries a directory part ("svc/app.log"): nothing in the log directory is then the appender's own
	Script   []string   `json:"script,omitempty"`     // C19 grid: sequential script of w | clk | out:<kind> | restore
}

func (s *RollScn) knobs() SimKnobs { return s.Knobs }

const rollDir = "/logs"

// rollName is the file name of the rolling appender under test. C13 varies it per case (set at
// the start of the case, read by the judge of the same case); everybody else uses app.log.
var rollName = "app.log"

// file names that contain what a time layout would take for a field (digits 1-6, 15, 2006,
// zone and month abbreviations) are names like any other
var rollNames = []string{"app.log", "app.log", "svc1.log", "worker15.log", "audit_2006.log", "MST-batch.log", "Jan_report.log", "x.2.3.4.5", "svc/app.log"}

type rollWrite struct {
	ID         string
	Payload    string
	Start, End time.Time
	Panic      any
	Returned   bool
	StartStep  int
}

func rollPayload(w, i, size int) string {
	return fmt.Sprintf("<w%d-%d:%s>\n", w, i, filler(w+100, i, size))
}

func genRollBase(rt *rapid.T, thorough bool, maxWriters int) *RollScn {
	s := &RollScn{Knobs: genKnobs(rt), MaxAge: 100000}
	s.Interval = rapid.SampledFrom([]string{"1s", "2s", "2s", "10m", "h"}).Draw(rt, "interval")
	iv := intervals[s.Interval].Milliseconds()
	s.Knobs.OffsetMs = rapid.SampledFrom([]int64{0, 1, 999, iv - 1, iv / 2, iv + 7, 86399999}).Draw(rt, "offset")
	nw := rapid.IntRange(1, maxWriters).Draw(rt, "writers")
	maxOps := 5
	if thorough {
		maxOps = 8
	}
	for w := 0; w < nw; w++ {
		n := rapid.IntRange(1, maxOps).Draw(rt, "nwrites")
		var sizes []int
		for i := 0; i < n; i++ {
			sizes = append(sizes, rapid.SampledFrom([]int{1, 1, 10, 100, 5000, 65536}).Draw(rt, "size"))
		}
		s.Writers = append(s.Writers, sizes)
	}
	nc := rapid.IntRange(0, 10).Draw(rt, "nclock")
	for i := 0; i < nc; i++ {
		s.Clock = append(s.Clock, rapid.SampledFrom([]int{ckPlus1ms, ckPlus100ms, ckBeforeBoundary, ckBeforeBoundary, ckToBoundary, ckAfterBoundary, ckAfterBoundary, ckPlusInterval, ckPlus3Intervals, ckPlus100us, ckBefore100us, ckBefore100us, ckAfter100us, ckAfter100us}).Draw(rt, "clock"))
	}
	return s
}

// clockEnv registers the clock decisions as one environment action.
func clockEnv(x *Exec, s *RollScn, boundaries *int) {
	iv := intervals[s.Interval]
	idx := 0
	// With a retention period as short as the clock moves themselves (MaxAge 1 h), time only
	// passes between operations: the environment assumption is that no goroutine is stalled for
	// longer than MaxAge in the middle of a write, a rotation or a retention sweep.
	between := func() bool {
		return time.Duration(s.MaxAge)*time.Hour > 20*iv || x.Sim.AllTasksLocked(func(t verifsim.Task) bool {
			return t.State == verifsim.StDone || (!t.Daemon && (t.Site == "" || t.Site == "start" || t.Site == "writer.between"))
		})
	}
	x.Sim.AddEnv(&verifsim.EnvAction{Name: "clock", Enabled: func() bool { return idx < len(s.Clock) && between() }, Run: func() {
		k := s.Clock[idx]
		idx++
		now := verifsim.Now()
		next := now.Truncate(iv).Add(iv)
		var d time.Duration
		switch k {
		case ckPlus1ms:
			d = time.Millisecond
		case ckPlus100ms:
			d = 100 * time.Millisecond
		case ckBeforeBoundary:
			d = next.Sub(now) - time.Millisecond
		case ckToBoundary:
			d = next.Sub(now)
		case ckAfterBoundary:
			d = next.Sub(now) + time.Millisecond
		case ckPlusInterval:
			d = iv
		case ckPlus3Intervals:
			d = 3 * iv
		case ckPlus100us:
			d = 100 * time.Microsecond
		case ckBefore100us:
			d = next.Sub(now) - 100*time.Microsecond
		case ckAfter100us:
			d = next.Sub(now) + 100*time.Microsecond
		case ckBackInterval:
			x.Sim.Jump(-iv)
			x.Sim.Probe("clock_jumped_back")
			return
		}
		if d <= 0 {
			d = 50 * time.Microsecond
		}
		if !now.Add(d).Truncate(iv).Equal(now.Truncate(iv)) {
			*boundaries++
			x.Sim.Probe("boundary_crossed")
		}
		x.Sim.Advance(d)
	}})
}

func newRolling(s *RollScn, name string) *log.RollingFileAppender {
	return &log.RollingFileAppender{
		Layout:   &log.TextLayout{BaseLayout: log.BaseLayout{FileLineLength: 48}},
		FileDir:  rollDir,
		FileName: name,
		Rotation: log.TimeRotation{Interval: intervals[s.Interval]},
		MaxAge:   int32(s.MaxAge),
	}
}

// spawnWriters starts one task per writer issuing raw Writes.
func spawnWriters(x *Exec, s *RollScn, a *log.RollingFileAppender, writes *[]*rollWrite) {
	spawnWritersPart(x, s, a, writes, 0, 1)
}

// spawnWritersPart starts the writers for part k of n of every writer's list
// (phases separated by stop/start cycles).
func spawnWritersPart(x *Exec, s *RollScn, a *log.RollingFileAppender, writes *[]*rollWrite, k, n int, twin ...*log.RollingFileAppender) {
	first := a
	for w := range s.Writers {
		a := first
		if len(twin) > 0 && w%2 == 1 {
			a = twin[0]
		}
		lo, hi := len(s.Writers[w])*k/n, len(s.Writers[w])*(k+1)/n
		if lo == hi {
			continue
		}
		x.Sim.Spawn(fmt.Sprintf("writer%d", w), func() {
			for i, size := range s.Writers[w] {
				if i < lo || i >= hi {
					continue
				}
				rw := &rollWrite{ID: fmt.Sprintf("w%d-%d", w, i), Payload: rollPayload(w, i, size), Start: verifsim.Now()}
				rw.StartStep, _ = stepTask()
				*writes = append(*writes, rw)
				var pv any
				if s.ViaAppend && i%2 == 1 {
					// an event whose timestamp comes from the application's own clock (years away from
					// the wall clock, or zero): when to rotate is a matter of the wall clock alone
					rw.Payload = fmt.Sprintf("APPENDED-w%d-%d-%s", w, i, strings.Repeat("z", size%300))
					e := log.GetEvent()
					e.Level, e.Tag, e.File, e.Line = log.InfoLevel, "_app_def", "roll.go", i
					e.Time = []time.Time{evTime(evKey{task: w, seq: i}), {}, verifsim.Now().Add(-36 * time.Hour)}[(w+i/2)%3]
					e.Fields = []log.Field{log.String("p", rw.Payload)}
					pv, _ = call(func() { a.Append(e) })
					log.PutEvent(e)
				} else {
					pv, _ = call(func() { a.Write([]byte(rw.Payload)) })
				}
				rw.End = verifsim.Now()
				if pv != nil {
					rw.Panic = pv
				} else {
					rw.Returned = true
				}
				verifsim.Yield("writer.between")
			}
		})
	}
}

// rollBase is the last path component of the appender's file name: a name with a directory
// part ("svc/app.log") puts the rotated files app.log.<ts> into that sub-directory of FileDir.
func rollBase() string { return rollName[strings.LastIndex(rollName, "/")+1:] }

// rollSub is the directory part of the file name ("" or "/svc").
func rollSub() string {
	if i := strings.LastIndex(rollName, "/"); i >= 0 {
		return "/" + rollName[:i]
	}
	return ""
}

var rollNameRe = regexp.MustCompile(`^\d{14}$`)

func parseNameTime(ts string) (time.Time, bool) {
	t, err := time.ParseInLocation("20060102150405", ts, time.Local)
	return t, err == nil
}

// locate finds in which files (path -> count) a payload occurs.
func locate(files map[string][]byte, payload string) (where []string, total int) {
	for p, data := range files {
		if n := strings.Count(string(data), payload); n > 0 {
			where = append(where, p)
			total += n
		}
	}
	sort.Strings(where)
	return
}

// ---------------------------------------------------------------- C13

type c13 struct{}

func init() { register(c13{}) }

func (c13) ID() string    { return "C13" }
func (c13) Level() string { return "exploration" }
func (c13) Rule() string {
	return "case = (rotation interval, start offset inside the interval, time zone, 1-16 writer tasks (optionally spread over two live appender objects on the same file name; file names include ones with layout-like tokens and one with a directory part, svc/app.log, whose files must sit in that sub-directory) with unique payloads of 1 B-64 KiB and occasionally one of 300 000 bytes, a list of clock decisions biased to land just before/on/after interval boundaries or to idle across whole intervals, optional pre-existing file, stop/start cycles, scheduling tape) drawn by rapid from the seed and run on the simulated disk and clock, fault-free. Non-trivial = at least one interval boundary crossed while the appender was started AND at least one preemption (or, for single-writer cases, at least two boundaries); distinct = distinct context-switch trace hashes (clock decisions are part of the trace)."
}
func (c13) Decode(raw json.RawMessage) (any, error) {
	var s RollScn
	err := json.Unmarshal(raw, &s)
	return &s, err
}

func (c13) Gen(rt *rapid.T, thorough bool) any {
	mw := 4
	if thorough {
		mw = 16
	}
	s := genRollBase(rt, thorough, mw)
	s.Pre = rapid.IntRange(0, 3).Draw(rt, "pre") == 0
	s.Restarts = rapid.SampledFrom([]int{0, 0, 0, 1, 2}).Draw(rt, "restarts")
	s.Twin = len(s.Writers) > 1 && rapid.IntRange(0, 3).Draw(rt, "twin") == 0
	s.ViaAppend = rapid.IntRange(0, 2).Draw(rt, "via_append") == 0
	s.Name = rapid.SampledFrom(rollNames).Draw(rt, "file_name")
	if rapid.IntRange(0, 7).Draw(rt, "huge") == 0 {
		// one very long line somewhere: "whole" has no size limit
		w := rapid.IntRange(0, len(s.Writers)-1).Draw(rt, "huge_w")
		s.Writers[w][rapid.IntRange(0, len(s.Writers[w])-1).Draw(rt, "huge_i")] = 300000
	}
	return s
}

func (c13) Run(x *Exec, scn any) {
	s := scn.(*RollScn)
	o := x.Out
	rollName = "app.log"
	if s.Name != "" {
		rollName = s.Name
	}
	defer func() { rollName = "app.log" }()
	x.FS.MkdirAll(rollDir + rollSub())
	iv := intervals[s.Interval]
	start := verifsim.Now()
	preContent := "OLD-CONTENT-BEFORE-START\n"
	preName := rollDir + "/" + rollName + "." + start.Format("20060102150405")
	if s.Pre {
		x.FS.PutFile(preName, []byte(preContent), start.Add(-time.Hour))
	}
	a := newRolling(s, rollName)
	if err := a.Start(); err != nil {
		panic("harness: rolling Start failed on a healthy disk: " + err.Error())
	}
	var twin []*log.RollingFileAppender
	if s.Twin {
		// two live appenders on the same directory and name (two loggers left at the default
		// file name): both append to the same files, neither may disturb the other's lines
		b := newRolling(s, rollName)
		if err := b.Start(); err != nil {
			panic("harness: twin rolling Start failed on a healthy disk: " + err.Error())
		}
		twin = append(twin, b)
	}
	boundaries := 0
	clockEnv(x, s, &boundaries)
	var writes []*rollWrite
	movedAt := -1 // index of the first write issued after the appender was pointed at another directory
	restartsDone := 0
	// stop/start cycles happen only while no write is in progress (the property's premise):
	// the writers' lists are cut into Restarts+1 phases with a stop/start between them,
	// all within whatever simulated time the scheduler lets pass (often the same second)
	phases := s.Restarts + 1
	spawnWritersPart(x, s, a, &writes, 0, phases, twin...)
	res := x.Sim.Run(nil)
	if len(x.clientsStuck()) > 0 || res.StepCap {
		o.violate("blocked", "C13/write-blocked", "writes did not finish: %+v", res)
	}
	for r := 0; r < s.Restarts; r++ {
		x.Sim.Spawn("restart", func() {
			a.Stop()
			if s.Knobs.MapSeed%3 == 2 && r == s.Restarts-1 && !s.Twin {
				// the exported configuration of a stopped appender may be changed before it is started
				// again: from now on its files belong in the other directory
				x.FS.MkdirAll(rollDir + "2" + rollSub())
				a.FileDir = rollDir + "2"
				movedAt = len(writes)
			}
			if err := a.Start(); err != nil {
				panic("harness: rolling re-Start failed: " + err.Error())
			}
			extra := &rollWrite{ID: fmt.Sprintf("r%d", r), Payload: rollPayload(90+r, 0, 10), Start: verifsim.Now()}
			writes = append(writes, extra)
			pv, _ := call(func() { a.Write([]byte(extra.Payload)) })
			extra.End = verifsim.Now()
			extra.Panic, extra.Returned = pv, pv == nil
		})
		x.Sim.Run(nil)
		restartsDone++
		spawnWritersPart(x, s, a, &writes, r+1, phases, twin...)
		res = x.Sim.Run(nil)
		if len(x.clientsStuck()) > 0 || res.StepCap {
			o.violate("blocked", "C13/write-blocked", "writes after a restart did not finish: %+v", res)
		}
	}
	x.Sim.Spawn("stopper", func() {
		a.Stop()
		for _, b := range twin {
			b.Stop()
		}
		if s.Knobs.MapSeed%2 == 0 {
			if pv, st := call(a.Stop); pv != nil { // appenders tolerate a second Stop
				o.violate("second-stop-panic", "C13/second-stop-panics/"+panicSite(st), "a second Stop of the rolling appender panicked: %v", pv)
			}
		}
	})
	x.Sim.Run(nil)
	if d := x.Sim.Died(); len(d) > 0 {
		for _, t := range d {
			if t.Daemon {
				o.violate("library-goroutine-panic", "C13/library-goroutine-panic", "library goroutine %s panicked: %v", t.Name, t.Panic)
			} else {
				panic(fmt.Sprintf("harness: task %s died: %v\n%s", t.Name, t.Panic, t.Stack))
			}
		}
	}
	x.Sim.Close()
	o.Reached = boundaries >= 1 && (x.Sim.Preemptions() > 0 || (len(s.Writers) == 1 && boundaries >= 2))
	judgeRolling(x, s, "C13", writes, iv, true)
	if movedAt >= 0 {
		all := x.FS.AllFiles()
		for _, w := range writes[movedAt:] {
			if where, n := locate(all, w.Payload); w.Returned && n == 1 && !strings.HasPrefix(where[0], rollDir+"2/") {
				o.violate("wrong-directory", "C13/write-not-in-the-configured-directory", "write %s was issued after the stopped appender was pointed at %s2 and started again, but sits in %s", w.ID, rollDir, where[0])
				break
			}
		}
	}
	if s.Pre {
		data, _ := x.FS.ReadFile(preName)
		if !strings.HasPrefix(string(data), preContent) {
			o.violate("pre-existing-replaced", "C13/pre-existing-content-lost", "file %s existed before Start with %q; afterwards it begins with %q", preName, preContent, short(string(data), 60))
		}
	}
}

// judgeRolling checks placement of every write: exactly once, whole, in one
// properly named file; time order against the file's name.
func judgeRolling(x *Exec, s *RollScn, pid string, writes []*rollWrite, iv time.Duration, strictTime bool) {
	o := x.Out
	failedOS := x.FS.FailedWriteSet() // writes the simulated OS refused (fault injection): only these may be missing
	backward := false
	for _, k := range s.Clock {
		if k == ckBackInterval {
			backward = true
		}
	}
	files := map[string][]byte{}
	for p, data := range x.FS.AllFiles() {
		base := p[strings.LastIndex(p, "/")+1:]
		if strings.HasPrefix(base, rollBase()+".") && !strings.HasPrefix(base, rollBase()+".wf") {
			files[p] = data
			if sub := rollSub(); sub != "" && !strings.HasSuffix(p[:strings.LastIndex(p, "/")], sub) {
				o.violate("bad-file-name", pid+"/file-outside-its-directory", "file %s of appender %q is not in the sub-directory its name points into", p, rollName)
			}
		}
	}
	for p := range files {
		base := p[strings.LastIndex(p, "/")+1:]
		suffix := strings.TrimPrefix(base, rollBase()+".")
		known := false
		for _, pf := range s.Pop {
			if pf.Name == base {
				known = true
			}
		}
		if !known && !rollNameRe.MatchString(suffix) {
			o.violate("bad-file-name", pid+"/bad-file-name", "file %s is not <name>.<yyyyMMddHHmmss>", p)
		}
	}
	ops, _ := x.FS.Counters()
	closedWrites := ops["write_on_closed"]
	for _, w := range writes {
		if w.Panic != nil {
			o.violate("write-panic", pid+"/write-panic", "Write %s panicked: %v", w.ID, w.Panic)
			continue
		}
		if !w.Returned {
			continue
		}
		where, total := locate(files, w.Payload)
		if total == 0 && failedOS[w.Payload] {
			x.Sim.Probe("write_failed_in_os_and_absent")
			continue // the OS refused this very write: the only legitimate way for a returned write to be absent
		}
		if total == 0 {
			// retention may have removed the file that held it - legitimately only if the file's
			// last modification was older than MaxAge when it went
			var gone *simos.Removal
			for _, r := range x.FS.Removals() {
				if strings.Contains(string(r.Data), w.Payload) {
					gone = &r
				}
			}
			if gone != nil {
				// (a writer stalled for longer than MaxAge between picking its file and writing into
				// it lands in an expired file too: a line that old may go with it)
				maxAge := time.Duration(s.MaxAge) * time.Hour
				// (and once the wall clock has jumped backwards ages are not comparable at all)
				if gone.At.Sub(gone.Mtime) >= maxAge || gone.At.Sub(w.Start) >= maxAge || backward {
					x.Sim.Probe("write_expired_with_its_file")
					continue
				}
				o.violate("lost-write", pid+"/accepted-write-deleted-with-a-recent-file", "write %s (%s..%s) was in %s, which was removed at %s although last modified at %s (maxAge %d h)", w.ID,
					w.Start.Format("15:04:05.000"), w.End.Format("15:04:05.000"), gone.Path, gone.At.Format("15:04:05.000"), gone.Mtime.Format("15:04:05.000"), s.MaxAge)
				continue
			}
		}
		switch {
		case total == 0:
			disc := "no-failed-os-write"
			if closedWrites > 0 {
				disc = "os-write-hit-closed-handle"
			}
			o.violate("lost-write", pid+"/lost-write/"+disc, "write %s (%d bytes, %s..%s) is in no file; %d OS writes hit a closed handle in this run", w.ID, len(w.Payload), w.Start.Format("15:04:05.000"), w.End.Format("15:04:05.000"), closedWrites)
			continue
		case total > 1:
			o.violate("duplicate-write", pid+"/duplicate-write", "write %s occurs %d times in %v", w.ID, total, where)
			continue
		}
		base := where[0][strings.LastIndex(where[0], "/")+1:]
		ft, ok := parseNameTime(strings.TrimPrefix(base, rollBase()+"."))
		if !ok {
			continue
		}
		if w.End.Before(ft) && !backward {
			o.violate("write-before-file-time", pid+"/write-before-file-time", "write %s completed at %s but sits in %s whose name time is later", w.ID, w.End.Format(time.RFC3339Nano), base)
		}
		if strictTime && len(s.Writers) == 1 && !strings.HasPrefix(w.ID, "r") {
			lo := w.Start.Truncate(iv)
			if ft.Before(lo.Truncate(time.Second)) {
				o.violate("write-in-stale-file", pid+"/write-in-stale-file", "single writer: write %s began at %s (interval starts %s) but went to %s, a file of an earlier interval",
					w.ID, w.Start.Format(time.RFC3339Nano), lo.Format(time.RFC3339Nano), base)
			}
		}
	}
	if n := x.FS.TotalShrinks(); n > 0 {
		o.violate("file-shrunk", pid+"/file-shrunk", "%d truncations happened", n)
	}
}

var _ = simos.O_APPEND
var _ = syscall.ENOENT

// ---------------------------------------------------------------- C19

type c19 struct{}

func init() { register(c19{}) }

func (c19) ID() string    { return "C19" }
func (c19) Level() string { return "fault_enumeration" }
func (c19) Rule() string {
	return "case = C13-style workload (1-4 writers, clock decisions around 3-6 boundaries) plus an ordered list of fault actions the scheduler places anywhere between the writers' steps and the clock decisions: directory renamed away / restored (open fails with ENOENT, held handles keep working), EMFILE / ENOSPC / EACCES on open; or a static failing target (file appender never started or already closed, console stream failing every write) driven through a synchronous logger. Fault placements are enumerated by the seeded scheduler tape (every position relative to boundaries and writes is reachable; sampled, not exhaustive). Non-trivial = a file creation actually failed at a boundary (fired > 0) while at least one write followed, or a static failing target received at least one call; distinct = distinct context-switch trace hashes (fault and clock actions are part of the trace). Since round 3: one third of the 10 min / 1 h cases run with MaxAge = 1 h and clock moves of several intervals (then the clock only moves between operations); a returned write that is in no file is looked up in the removal log of the simulated disk and may only have gone with a file last modified at least MaxAge before; in script mode (the enumerated grid, 866 placements incl. two appenders sharing the directory and hourly rotation with 1 h retention) every write is compared with the exact file a sequential per-appender model predicts."
}
func (c19) Decode(raw json.RawMessage) (any, error) {
	var s RollScn
	err := json.Unmarshal(raw, &s)
	return &s, err
}

func (c19) Gen(rt *rapid.T, thorough bool) any {
	s := genRollBase(rt, thorough, 4)
	if rapid.IntRange(0, 5).Draw(rt, "static") == 0 {
		s.Static = rapid.SampledFrom([]string{"file-closed", "file-unstarted", "console-fails", "console-fails-zero", "rolling-unstarted", "via-refresh", "via-refresh"}).Draw(rt, "static_kind")
		return s
	}
	for len(s.Clock) < 3 {
		s.Clock = append(s.Clock, rapid.SampledFrom([]int{ckAfterBoundary, ckToBoundary, ckPlusInterval}).Draw(rt, "clock_extra"))
	}
	n := rapid.IntRange(1, 2).Draw(rt, "outages")
	for i := 0; i < n; i++ {
		s.Outage = append(s.Outage, OutageOp{Kind: rapid.SampledFrom([]string{"rename", "rename", "emfile", "enospc", "eacces", "wfail", "wfail-short"}).Draw(rt, "outage")}, OutageOp{Kind: "restore"})
	}
	if (s.Interval == "10m" || s.Interval == "h") && rapid.IntRange(0, 2).Draw(rt, "short_retention") == 0 {
		// retention shorter than the outage: the file the appender is forced to keep is older
		// by name than MaxAge, yet it is the live file and freshly written
		s.MaxAge = 1
		for i := 0; i < 3; i++ {
			s.Clock = append(s.Clock, ckPlus3Intervals)
		}
		s.Clock = append(s.Clock, ckPlus1ms, ckAfterBoundary)
	}
	if rapid.IntRange(0, 5).Draw(rt, "clock_back") == 0 {
		// the wall clock may also jump backwards; then only robustness clauses are judged
		pos := rapid.IntRange(0, len(s.Clock)).Draw(rt, "clock_back_pos")
		s.Clock = append(s.Clock[:pos], append([]int{ckBackInterval}, s.Clock[pos:]...)...)
	}
	return s
}

func (c19) Run(x *Exec, scn any) {
	s := scn.(*RollScn)
	o := x.Out
	x.FS.MkdirAll(rollDir)
	if s.Static != "" {
		runStaticFailing(x, s)
		return
	}
	iv := intervals[s.Interval]
	a := newRolling(s, rollName)
	if err := a.Start(); err != nil {
		panic("harness: rolling Start failed on a healthy disk: " + err.Error())
	}
	boundaries := 0
	if len(s.Script) == 0 {
		clockEnv(x, s, &boundaries)
	}
	away := false
	var rule *simos.FaultRule
	idx := 0
	restore := func() {
		if away {
			if err := x.FS.Rename(rollDir+".away", rollDir); err != nil {
				panic("harness: restore failed: " + err.Error())
			}
			away = false
		}
		if rule != nil {
			x.FS.ClearFaults()
			rule = nil
		}
	}
	x.Sim.AddEnv(&verifsim.EnvAction{Name: "fault", Enabled: func() bool { return idx < len(s.Outage) }, Run: func() {
		op := s.Outage[idx]
		idx++
		switch op.Kind {
		case "rename":
			if !away && rule == nil {
				if err := x.FS.Rename(rollDir, rollDir+".away"); err != nil {
					panic("harness: rename failed: " + err.Error())
				}
				away = true
				x.Sim.Probe("outage_started")
			}
		case "emfile", "enospc", "eacces":
			if !away && rule == nil {
				errno := map[string]syscall.Errno{"emfile": syscall.EMFILE, "enospc": syscall.ENOSPC, "eacces": syscall.EACCES}[op.Kind]
				rule = x.FS.AddFault(&simos.FaultRule{Op: "open", Prefix: rollDir, Err: errno, Count: -1})
				x.Sim.Probe("outage_started")
			}
		case "wfail", "wfail-short":
			// the device is full: writes to the held files fail (entirely, or after 5 bytes)
			if !away && rule == nil {
				short := 0
				if op.Kind == "wfail-short" {
					short = 5
				}
				rule = x.FS.AddFault(&simos.FaultRule{Op: "write", Prefix: rollDir, Err: syscall.ENOSPC, Count: -1, Short: short})
				x.Sim.Probe("write_outage_started")
			}
		case "restore":
			restore()
		}
	}})
	var writes []*rollWrite
	maxOpen := 0
	var res verifsim.RunResult
	// script mode is sequential, so where each write must land is known exactly. Per appender:
	// the interval of the file in use and the last interval in which creation was attempted.
	type apModel struct {
		ap        *log.RollingFileAppender
		prefix    string
		file, att time.Time
	}
	type expect struct {
		w      *rollWrite
		m      *apModel
		file   time.Time
		outage bool
	}
	var models = map[string]*apModel{"w": {ap: a, prefix: rollName + ".", file: verifsim.Now().Truncate(iv), att: verifsim.Now().Truncate(iv)}}
	var expects []expect
	sibling := false
	for _, step := range s.Script {
		sibling = sibling || step == "v"
	}
	if sibling {
		// a second appender in the same directory (what separate=true builds): each one notices
		// a boundary at its own next write and makes its own creation attempt
		b := newRolling(s, rollName+".wf")
		if err := b.Start(); err != nil {
			panic("harness: sibling rolling Start failed on a healthy disk: " + err.Error())
		}
		models["v"] = &apModel{ap: b, prefix: rollName + ".wf.", file: verifsim.Now().Truncate(iv), att: verifsim.Now().Truncate(iv)}
	}
	if len(s.Script) > 0 {
		// enumerated placement: a fixed sequential script, the outage begins and ends at given positions
		for i, step := range s.Script {
			switch {
			case step == "w" || step == "v":
				m := models[step]
				rw := &rollWrite{ID: fmt.Sprintf("g%d%s", i, step), Payload: rollPayload(0, i, 10), Start: verifsim.Now()}
				outage := away || rule != nil
				if k := rw.Start.Truncate(iv); !k.Equal(m.att) {
					m.att = k
					if !outage {
						m.file = k
					}
				}
				expects = append(expects, expect{w: rw, m: m, file: m.file, outage: outage})
				if step == "w" {
					writes = append(writes, rw)
				}
				ok := x.do(fmt.Sprintf("writer-g%d", i), func() {
					pv, _ := call(func() { m.ap.Write([]byte(rw.Payload)) })
					rw.End = verifsim.Now()
					rw.Panic, rw.Returned = pv, pv == nil
				})
				if !ok {
					o.violate("blocked", "C19/write-blocked", "write %d of the script did not return: %v", i, x.clientsStuck())
				}
			case step == "clk":
				now := verifsim.Now()
				x.Sim.Advance(now.Truncate(iv).Add(iv).Sub(now) + time.Millisecond)
				boundaries++
				x.Sim.Probe("boundary_crossed")
			case step == "restore":
				restore()
			case strings.HasPrefix(step, "out:"):
				s.Outage = nil
				kind := strings.TrimPrefix(step, "out:")
				if kind == "rename" {
					if err := x.FS.Rename(rollDir, rollDir+".away"); err != nil {
						panic("harness: rename failed: " + err.Error())
					}
					away = true
				} else {
					errno := map[string]syscall.Errno{"emfile": syscall.EMFILE, "enospc": syscall.ENOSPC, "eacces": syscall.EACCES}[kind]
					rule = x.FS.AddFault(&simos.FaultRule{Op: "open", Prefix: rollDir, Err: errno, Count: -1})
				}
				x.Sim.Probe("outage_started")
			}
			if n := x.FS.OpenCount(); n > maxOpen {
				maxOpen = n
			}
		}
	} else {
		spawnWriters(x, s, a, &writes)
		res = x.Sim.Run(nil)
	}
	if len(x.clientsStuck()) > 0 || res.StepCap {
		o.violate("blocked", "C19/write-blocked", "writes did not finish under faults: %+v", res)
	}
	if n := x.FS.OpenCount(); n > maxOpen {
		maxOpen = n
	}
	// faults stop; the next boundary must retry
	restore()
	idx = len(s.Outage)
	x.Sim.Advance(verifsim.Now().Truncate(iv).Add(iv).Sub(verifsim.Now()) + time.Millisecond)
	boundaryAfter := verifsim.Now().Truncate(iv)
	final := &rollWrite{ID: "final", Payload: "<final-after-outage>\n", Start: verifsim.Now()}
	x.Sim.Spawn("final-writer", func() {
		pv, _ := call(func() { a.Write([]byte(final.Payload)) })
		final.End = verifsim.Now()
		final.Panic, final.Returned = pv, pv == nil
	})
	res = x.Sim.Run(nil)
	if len(x.clientsStuck()) > 0 || res.StepCap {
		o.violate("blocked", "C19/write-blocked", "write after the outage did not finish: %+v", res)
	}
	if n := x.FS.OpenCount(); n > maxOpen {
		maxOpen = n
	}
	writes = append(writes, final)
	x.Sim.Spawn("stopper", func() {
		a.Stop()
		if m := models["v"]; m != nil {
			m.ap.Stop()
		}
	})
	x.Sim.Run(nil)
	for _, t := range x.Sim.Died() {
		if t.Daemon {
			o.violate("library-goroutine-panic", "C19/library-goroutine-panic", "library goroutine %s panicked: %v", t.Name, t.Panic)
		} else {
			panic(fmt.Sprintf("harness: task %s died: %v\n%s", t.Name, t.Panic, t.Stack))
		}
	}
	x.Sim.Close()
	_, fired := x.FS.Counters()
	failedOpens := 0
	for k, v := range fired {
		if strings.HasPrefix(k, "open:") {
			failedOpens += v
		}
	}
	ops, _ := x.FS.Counters()
	_ = ops
	o.Reached = (failedOpens > 0 || x.Sim.Probes["open_enoent"] > 0) && len(writes) > 1
	// (1) nothing accepted is lost: no write fault was injected, so every returned write must be somewhere
	judgeRolling(x, s, "C19", writes, iv, false)
	// (2) retry at the next boundary after the outage (not judged when the clock also jumped backwards)
	backward := false
	for _, k := range s.Clock {
		if k == ckBackInterval {
			backward = true
		}
	}
	if final.Returned && !backward {
		files := map[string][]byte{}
		for p, d := range x.FS.AllFiles() {
			files[p] = d
		}
		where, n := locate(files, final.Payload)
		if n == 1 {
			base := where[0][strings.LastIndex(where[0], "/")+1:]
			if ft, ok := parseNameTime(strings.TrimPrefix(base, rollName+".")); ok && ft.Before(boundaryAfter.Truncate(time.Second)) {
				o.violate("no-retry-after-outage", "C19/no-retry-after-outage", "faults stopped and the clock crossed the boundary %s, but the next write went to %s: creation was not attempted again", boundaryAfter.Format(time.RFC3339), base)
			}
			if !strings.HasPrefix(where[0], rollDir+"/") {
				o.violate("no-retry-after-outage", "C19/no-retry-after-outage", "after the outage the write went to %s (not in %s)", where[0], rollDir)
			}
		}
	}
	// (2b) script mode: every write sits in exactly the file the sequential model says
	if !backward {
		all := x.FS.AllFiles()
		for _, e := range expects {
			if !e.w.Returned {
				if e.w.Panic != nil && e.m.prefix != rollName+"." {
					o.violate("write-panic", "C19/write-panic", "Write %s on the sibling appender panicked: %v", e.w.ID, e.w.Panic)
				}
				continue
			}
			mine := map[string][]byte{}
			for p, d := range all {
				base := p[strings.LastIndex(p, "/")+1:]
				if rest, ok := strings.CutPrefix(base, e.m.prefix); ok && rollNameRe.MatchString(rest) {
					mine[p] = d
				}
			}
			where, n := locate(mine, e.w.Payload)
			if n == 0 {
				if e.m.prefix != rollName+"." { // the first appender's losses are judged (with the retention rules) above
					o.violate("lost-write", "C19/lost-write/sibling", "write %s to the sibling appender is in none of its files", e.w.ID)
				}
				continue
			}
			if n > 1 {
				o.violate("duplicate-write", "C19/duplicate-write", "write %s occurs %d times in %v", e.w.ID, n, where)
				continue
			}
			base := where[0][strings.LastIndex(where[0], "/")+1:]
			ft, ok := parseNameTime(strings.TrimPrefix(base, e.m.prefix))
			want := e.file.Truncate(time.Second)
			if ok && !ft.Equal(want) {
				what := "creation-not-attempted-although-possible"
				if ft.After(want) {
					what = "file-created-during-outage"
				}
				o.violate("wrong-file", "C19/script/"+what, "sequential script: write %s at %s (creation possible: %v) must be in the file of %s but is in %s", e.w.ID,
					e.w.Start.Format("15:04:05.000"), !e.outage, want.Format("15:04:05"), base)
			}
		}
	}
	// (3) descriptors
	if sibling {
		maxOpen -= 2
	}
	if maxOpen > 2 {
		o.violate("too-many-descriptors", "C19/too-many-descriptors", "%d descriptors open on the rolling files while no write was in progress", maxOpen)
	}
	if n := x.FS.OpenCount(); n != 0 {
		o.violate("descriptor-leak", "C19/descriptor-leak-after-stop", "%d descriptors still open after Stop: %v", n, x.FS.Handles())
	}
	// (4) no creation attempts between a failed creation and the next boundary
	if sibling {
		failedOpens = (failedOpens + 1) / 2 // each of the two appenders makes its own attempt per boundary
	}
	if failedOpens > boundaries+1 {
		o.violate("retry-storm", "C19/creation-retried-within-interval", "%d failed creations for %d boundaries: creation is retried before the next boundary", failedOpens, boundaries)
	}
}

// runStaticFailing drives a synchronous logger whose target is closed, was
// never opened, or fails every write: the log call must return normally.
// runViaRefresh: the rolling appender as a configuration uses it - behind the root logger, which
// also serves the library's own tags - through an outage that spans a boundary.
func runViaRefresh(x *Exec, s *RollScn) {
	o := x.Out
	cfg := (&SysSpec{Style: Style{}, Props: map[string]string{"enableCaller": "false"},
		Apps: []AppSpec{{Name: "roll", Type: "RollingFile", FileDir: rollDir, FileName: rollName, Rotation: "1s", MaxAge: 100000}},
		Logs: []LogSpec{{Name: "root", Type: "Logger", Refs: []RefSpec{{Ref: "roll"}}}}}).Render()
	var err error
	if !x.do("refresh", func() { call(func() { err = log.Refresh(cfg) }) }) || err != nil {
		panic(fmt.Sprintf("harness: Refresh of a root logger over a rolling appender failed: %v", err))
	}
	kind := []string{"rename", "emfile", "eacces"}[int(s.Knobs.MapSeed)%3]
	var subs []*Submitted
	logOne := func(i int) bool {
		return x.do(fmt.Sprintf("client-%d", i), func() {
			subs = append(subs, emit(0, i, log.TagAppDef, "_app_def", EvOp{Kind: i % 5, Size: 5}, log.InfoLevel))
		})
	}
	step := func() { x.Sim.Advance(verifsim.Now().Truncate(time.Second).Add(time.Second).Sub(verifsim.Now()) + time.Millisecond) }
	ok := logOne(0)
	if kind == "rename" {
		x.FS.Rename(rollDir, rollDir+".away")
	} else {
		x.FS.AddFault(&simos.FaultRule{Op: "open", Prefix: rollDir, Err: map[string]syscall.Errno{"emfile": syscall.EMFILE, "eacces": syscall.EACCES}[kind], Count: -1})
	}
	for i := 1; i <= 3 && ok; i++ {
		step()
		ok = logOne(i) && logOne(10+i)
	}
	if kind == "rename" {
		x.FS.Rename(rollDir+".away", rollDir)
	} else {
		x.FS.ClearFaults()
	}
	if ok {
		step()
		ok = logOne(4)
	}
	if !ok {
		o.violate("blocked", "C19/write-blocked", "a log call through the root logger over a rolling appender did not return during/after a creation outage (%s): %v", kind, x.clientsStuck())
		return
	}
	if !x.do("destroy", func() { call(log.Destroy) }) {
		o.violate("blocked", "C19/write-blocked", "Destroy did not return after a creation outage: %v", x.clientsStuck())
		return
	}
	for _, t := range x.Sim.Died() {
		if t.Daemon {
			o.violate("library-goroutine-panic", "C19/library-goroutine-panic", "library goroutine %s panicked: %v", t.Name, t.Panic)
		}
	}
	x.Sim.Close()
	present := map[string]bool{}
	for p, d := range x.FS.AllFiles() {
		if strings.HasPrefix(p, rollDir+"/"+rollName+".") {
			for _, m := range idInLine.FindAllSubmatch(d, -1) {
				present[string(m[1])] = true
			}
		}
	}
	for _, sb := range subs {
		if sb.Panic != nil {
			o.violate("panic-on-failing-target", "C19/panic-on-failing-target/via-refresh/"+sb.PanicAt, "log call %s panicked during a creation outage: %v", sb.ID, sb.Panic)
		} else if !present[sb.ID] {
			o.violate("lost-write", "C19/lost-write/via-refresh", "event %s, logged through the root logger during/after a creation outage (%s), is in none of the appender's files", sb.ID, kind)
		}
	}
	o.Reached = true
}

func runStaticFailing(x *Exec, s *RollScn) {
	o := x.Out
	if s.Static == "via-refresh" {
		runViaRefresh(x, s)
		return
	}
	lay := &log.TextLayout{BaseLayout: log.BaseLayout{FileLineLength: 48}}
	full := log.LevelRange{MinLevel: log.NoneLevel, MaxLevel: log.MaxLevel}
	var l log.Logger
	var raw func([]byte)
	switch s.Static {
	case "file-closed":
		fl := &log.FileLogger{LoggerBase: log.LoggerBase{Level: full}, FileAppender: log.FileAppender{Layout: lay, FileDir: rollDir, FileName: "static.log"}}
		if err := fl.Start(); err != nil {
			panic("harness: " + err.Error())
		}
		fl.Stop()
		l, raw = fl, fl.Write
	case "file-unstarted":
		fl := &log.FileLogger{LoggerBase: log.LoggerBase{Level: full}, FileAppender: log.FileAppender{Layout: lay, FileDir: "/missing", FileName: "static.log"}}
		if err := fl.Start(); err == nil {
			panic("harness: Start on a missing directory succeeded")
		}
		l, raw = fl, fl.Write
	case "console-fails":
		x.FS.AddFault(&simos.FaultRule{Op: "write", Prefix: "/dev/stdout", Err: syscall.EIO, Count: -1, Short: 3})
		cl := &log.ConsoleLogger{LoggerBase: log.LoggerBase{Level: full}, ConsoleAppender: log.ConsoleAppender{Layout: lay}}
		l, raw = cl, cl.Write
	case "console-fails-zero":
		// the stream accepts nothing at all: every write returns (0, error)
		x.FS.AddFault(&simos.FaultRule{Op: "write", Prefix: "/dev/stdout", Err: syscall.ENOSPC, Count: -1, Short: 0})
		cl := &log.ConsoleLogger{LoggerBase: log.LoggerBase{Level: full}, ConsoleAppender: log.ConsoleAppender{Layout: lay}}
		l, raw = cl, cl.Write
	case "rolling-unstarted":
		ra := newRolling(s, rollName)
		ra.FileDir = "/missing"
		_ = ra.Start()
		sl := &log.SyncLogger{LoggerBase: log.LoggerBase{Level: full}, AppenderRefs: log.AppenderRefs{AppenderRefs: []*log.AppenderRef{{Appender: ra, Level: full}}}}
		l, raw = sl, ra.Write
	}
	var subs []*Submitted
	for w := range s.Writers {
		x.Sim.Spawn(fmt.Sprintf("client%d", w), func() {
			for i, size := range s.Writers[w] {
				sb := emitDirect(l, w, i, "_app_def", EvOp{Kind: i % 3, Size: size % 2000})
				subs = append(subs, sb)
				pv, st := call(func() { raw([]byte("raw\n")) })
				if pv != nil {
					o.violate("panic-on-failing-target", "C19/panic-on-failing-target/"+s.Static+"/"+panicSite(st), "raw Write on %s panicked: %v", s.Static, pv)
				}
			}
		})
	}
	clockEnv(x, s, new(int))
	res := x.Sim.Run(nil)
	if len(x.clientsStuck()) > 0 || res.StepCap {
		o.violate("blocked", "C19/blocked-on-failing-target/"+s.Static, "log calls on a failing target did not return: %+v", res)
	}
	for _, t := range x.Sim.Died() {
		panic(fmt.Sprintf("harness: task %s died: %v\n%s", t.Name, t.Panic, t.Stack))
	}
	x.Sim.Close()
	for _, sb := range subs {
		if sb.Panic != nil {
			o.violate("panic-on-failing-target", "C19/panic-on-failing-target/"+s.Static+"/"+sb.PanicAt, "log call %s on %s panicked: %v", sb.ID, s.Static, sb.Panic)
		}
	}
	o.Reached = len(subs) > 0
}

// ---------------------------------------------------------------- C14

type c14 struct{}

func init() { register(c14{}) }

func (c14) ID() string    { return "C14" }
func (c14) Level() string { return "exploration" }
func (c14) Rule() string {
	return "case = generated directory population (own rotated files '<name>.<14 digits>', prefix-sharing foreign files name.wf.<ts> / name.audit.<ts> / name.bak / name.1.gz / name.<13 or 15 digits>, unrelated files, sub-directories incl. one named like a rotated file) with modification times at least one hour on either side of now - maxAge, maxAge 1..720 h, optional sibling appender '<name>.wf' in the same directory, writers and clock decisions that trigger one or more rotations, optional ReadDir/Info/Remove failures; the real asynchronous cleanup goroutine runs as a simulated task. Non-trivial = a cleanup task ran with at least one expired own file and at least one expired foreign or fresh own file present; distinct = distinct context-switch trace hashes combined with the population. Since round 3: near-miss foreign names (app-log.<ts>, appXlog.<ts>), one failing listing followed by clean sweeps (expired files must then go), and a daylight-saving zone with the offset change inside the retention window (MaxAge is elapsed hours). Since 10.18: one case in eight uses a fileName with a directory part (svc/app.log); every entry of the log directory is then foreign and non-trivial means an expired foreign file was present."
}
func (c14) Decode(raw json.RawMessage) (any, error) {
	var s RollScn
	err := json.Unmarshal(raw, &s)
	return &s, err
}

var popForeign = []string{"%s", "app-log.%s", "appXlog.%s", "app_log.%s", "app.log.wf.%s", "app.log.audit.%s", "app.log.bak", "app.log.1.gz", "app.log.%s.gz", "app.logx.%s", "other.txt", "app.log", "app.log.2024010100000", "app.log.202401010000000", "app.log.2024010100000x", "xapp.log.%s"}

func (c14) Gen(rt *rapid.T, thorough bool) any {
	s := genRollBase(rt, thorough, 3)
	// short intervals for dense rotation/cleanup interleavings, long ones so that whole hours
	// pass while the logger is idle: files then cross the cut-off during the run
	s.Interval = rapid.SampledFrom([]string{"1s", "2s", "2s", "10m", "h", "h"}).Draw(rt, "interval14")
	if len(s.Clock) > 5 {
		s.Clock = s.Clock[:5]
	}
	s.Clock = append([]int{ckAfterBoundary}, s.Clock...)
	s.MaxAge = rapid.SampledFrom([]int{1, 2, 3, 24, 168, 720}).Draw(rt, "max_age")
	s.Separate = rapid.IntRange(0, 3).Draw(rt, "separate") == 0
	s.ViaLogger = s.Separate && rapid.Bool().Draw(rt, "via_logger")
	n := rapid.IntRange(2, 10).Draw(rt, "npop")
	seen := map[string]bool{}
	for i := 0; i < n; i++ {
		ts := fmt.Sprintf("2023%02d%02d%02d%02d%02d", rapid.IntRange(1, 12).Draw(rt, "mo"), rapid.IntRange(1, 28).Draw(rt, "d"), rapid.IntRange(0, 23).Draw(rt, "h"), rapid.IntRange(0, 59).Draw(rt, "mi"), rapid.IntRange(0, 59).Draw(rt, "s"))
		var name string
		switch rapid.IntRange(0, 2).Draw(rt, "class") {
		case 0:
			name = "app.log." + ts
		default:
			f := rapid.SampledFrom(popForeign).Draw(rt, "foreign")
			if strings.Contains(f, "%s") {
				name = fmt.Sprintf(f, ts)
			} else {
				name = f
			}
		}
		if seen[name] {
			continue
		}
		seen[name] = true
		pf := PopFile{Name: name, Size: rapid.IntRange(0, 50).Draw(rt, "psize")}
		// ages spread around the cut-off, from fresh to long expired; the oracle computes what
		// must go from the simulated clock at the time of the cleanup
		pf.AgeH = rapid.SampledFrom([]int{0, 0, s.MaxAge - 1, s.MaxAge - 1, s.MaxAge, s.MaxAge + 1, s.MaxAge + 1, s.MaxAge + 2, s.MaxAge + 100, s.MaxAge + 10000}).Draw(rt, "age_h")
		pf.AgeMin = rapid.SampledFrom([]int{0, 1, 30, 59}).Draw(rt, "age_min")
		if pf.AgeH < 0 {
			pf.AgeH = 0
		}
		pf.Dir = rapid.IntRange(0, 9).Draw(rt, "isdir") == 0
		s.Pop = append(s.Pop, pf)
	}
	if rapid.IntRange(0, 4).Draw(rt, "dirfault") == 0 {
		s.FaultDir = []string{rapid.SampledFrom([]string{"readdir", "info", "remove", "readdir-once", "readdir-once", "open-once", "open-once"}).Draw(rt, "dirfault_kind")}
	}
	if rapid.IntRange(0, map[bool]int{false: 90, true: 40}[thorough]).Draw(rt, "many_files") == 0 {
		// a directory with hundreds of own files whose ages follow their names - except one old-named
		// file that was modified a minute ago: every file is judged by its own modification time
		s.Pop, s.MaxAge, s.Interval, s.FaultDir = nil, 72, rapid.SampledFrom([]string{"1s", "2s"}).Draw(rt, "many_interval"), nil
		n := rapid.IntRange(520, 640).Draw(rt, "many_n")
		odd := rapid.IntRange(20, n/4).Draw(rt, "many_odd")
		for i := 0; i < n; i++ {
			age := (n - i) * 10 // minutes
			pf := PopFile{Name: "app.log." + time.Date(2023, 1, 1, 0, 0, 0, 0, time.UTC).Add(time.Duration(i)*10*time.Minute).Format("20060102150405"), AgeH: age / 60, AgeMin: age % 60, Size: 1}
			if i == odd {
				pf.AgeH, pf.AgeMin = 0, 1
			}
			s.Pop = append(s.Pop, pf)
		}
		s.Touch = false
		return s
	}
	if rapid.IntRange(0, 11).Draw(rt, "idle_then_failed_creation") == 0 {
		// the appender was idle for longer than MaxAge, and the creation of the next file fails at
		// the very rotation that ends the idle period: its current file is still the live one
		s.Interval, s.MaxAge, s.FaultDir, s.Separate, s.ViaLogger = "h", rapid.SampledFrom([]int{1, 2}).Draw(rt, "idle_max_age"), []string{"open-once"}, false, false
		s.Clock = []int{ckPlus3Intervals}
		s.Knobs.MapSeed -= s.Knobs.MapSeed % 3 // the first creation after Start is the one that fails
		s.Writers = [][]int{{5, 5, 5}}
		return s
	}
	s.Restart14 = !s.ViaLogger && rapid.IntRange(0, 3).Draw(rt, "restart14") == 0
	if s.Separate && !s.ViaLogger && rapid.Bool().Draw(rt, "max_age2") {
		s.MaxAge2 = rapid.SampledFrom([]int{1, 24, 720, 10000}).Draw(rt, "max_age2_v")
	}
	s.Touch = rapid.IntRange(0, 2).Draw(rt, "touch") == 0
	if s.Touch && rapid.IntRange(0, 3).Draw(rt, "touch_preset") != 0 && len(s.Pop) > 0 {
		// the case the touch is about: an own file a little younger than MaxAge, touched while the
		// clock moves on by whole intervals, several cleanups before and after
		s.Interval = "h"
		s.MaxAge = rapid.SampledFrom([]int{24, 48, 168}).Draw(rt, "touch_max_age")
		s.Pop[0] = PopFile{Name: "app.log.20230301000000", AgeH: s.MaxAge - 2, AgeMin: rapid.SampledFrom([]int{0, 20}).Draw(rt, "touch_age_min"), Size: 5}
		s.Clock = []int{ckAfterBoundary, ckPlusInterval, ckAfterBoundary, ckPlusInterval, ckAfterBoundary}
		s.FaultDir = nil
	}
	if !s.ViaLogger && rapid.IntRange(0, 7).Draw(rt, "sub_dir_name") == 0 {
		// a file name with a directory part: the rotated files live in a sub-directory; the files
		// app.log.<ts> of the log directory itself belong to whoever writes app.log there
		s.SubDir, s.Touch = true, false
	}
	if rapid.IntRange(0, 5).Draw(rt, "dst") == 0 {
		// a retention window that contains a change of the local UTC offset: MaxAge is in elapsed
		// hours, whatever the wall clock did in between. The run begins two days after the zone
		// left (or returned to) standard time.
		s.Knobs.TZ = 3
		day := int64(86400000)
		s.Knobs.OffsetMs = rapid.SampledFrom([]int64{94 * day, 304 * day}).Draw(rt, "dst_start") + rapid.SampledFrom([]int64{0, 3600000 * 5, 3600000*13 + 1800000}).Draw(rt, "dst_tod")
		s.MaxAge = rapid.SampledFrom([]int{72, 96, 168}).Draw(rt, "dst_max_age")
		s.Interval = rapid.SampledFrom([]string{"1s", "2s"}).Draw(rt, "dst_interval")
		for i := range s.Pop {
			s.Pop[i].AgeH = rapid.SampledFrom([]int{s.MaxAge - 1, s.MaxAge - 1, s.MaxAge, s.MaxAge, s.MaxAge - 2, s.MaxAge + 1}).Draw(rt, "dst_age_h")
			s.Pop[i].AgeMin = rapid.SampledFrom([]int{10, 30, 50}).Draw(rt, "dst_age_min")
		}
	}
	return s
}

var ownRe = regexp.MustCompile(`^app\.log\.\d{14}$`)
var ownWfRe = regexp.MustCompile(`^app\.log\.wf\.\d{14}$`)

func (c14) Run(x *Exec, scn any) {
	s := scn.(*RollScn)
	o := x.Out
	x.FS.MkdirAll(rollDir)
	start := verifsim.Now()
	mtimeOf := func(pf PopFile) time.Time {
		return start.Add(-time.Duration(pf.AgeH)*time.Hour - time.Duration(pf.AgeMin)*time.Minute)
	}
	if s.SubDir {
		rollName = "svc/app.log"
		defer func() { rollName = "app.log" }()
		x.FS.MkdirAll(rollDir + "/svc")
	}
	for _, pf := range s.Pop {
		p := rollDir + "/" + pf.Name
		if pf.Dir {
			x.FS.MkdirAll(p)
		} else {
			x.FS.PutFile(p, []byte(strings.Repeat("x", pf.Size)), mtimeOf(pf))
			if s.SubDir {
				// the sub-directory holds files of the same names and ages (earlier runs of this
				// appender); what happens to them is outside the statement and is not judged
				x.FS.PutFile(rollDir+"/svc/"+pf.Name, []byte(strings.Repeat("y", pf.Size)), mtimeOf(pf))
			}
		}
		x.FS.SetMtime(p, mtimeOf(pf))
	}
	for _, k := range s.FaultDir {
		if k == "open-once" {
			continue // installed once the appenders have started
		}
		if k == "readdir-once" {
			// one listing fails, everything afterwards works: the next cleanup has to do the job
			x.FS.AddFault(&simos.FaultRule{Op: "readdir", Prefix: rollDir, Err: syscall.EMFILE, Count: 1})
			continue
		}
		errno := map[string]syscall.Errno{"readdir": syscall.EIO, "info": syscall.ENOENT, "remove": syscall.EACCES}[k]
		x.FS.AddFault(&simos.FaultRule{Op: k, Prefix: rollDir, Err: errno, Skip: 0, Count: 1 + len(s.Pop)/2})
	}
	firedTotal := func() int {
		_, fired := x.FS.Counters()
		n := 0
		for _, v := range fired {
			n += v
		}
		return n
	}
	iv := intervals[s.Interval]
	var a, wf *log.RollingFileAppender
	var viaLogger *log.RollingFileLogger
	write := func(payload string) { a.Write([]byte(payload)) }
	var stop func()
	if s.ViaLogger {
		// the sibling pair as the rolling-file logger itself builds it; only INFO events are logged,
		// so the .wf appender stays idle: neither its old files nor its current file may be touched
		viaLogger = &log.RollingFileLogger{LoggerBase: log.LoggerBase{Name: "rl", Level: log.LevelRange{MinLevel: log.NoneLevel, MaxLevel: log.MaxLevel}},
			FileDir: rollDir, FileName: rollName, Separate: true, Rotation: log.TimeRotation{Interval: iv}, MaxAge: int32(s.MaxAge)}
		var err error
		if !x.do("start", func() { err = viaLogger.Start() }) || err != nil {
			panic(fmt.Sprintf("harness: rolling logger start: %v", err))
		}
		n := 0
		write = func(payload string) {
			n++
			e := log.GetEvent()
			e.Level, e.Time, e.Tag = log.InfoLevel, verifsim.Now(), "_app_def"
			e.Fields = []log.Field{log.String("id", fmt.Sprintf("t7s%d", n)), log.String("p", strings.TrimSpace(payload))}
			viaLogger.Append(e)
		}
		stop = viaLogger.Stop
	} else {
		a = newRolling(s, rollName)
		if err := a.Start(); err != nil {
			panic("harness: " + err.Error())
		}
		if s.Restart14 {
			// a restarted appender object is an appender like any other
			a.Stop()
			if err := a.Start(); err != nil {
				panic("harness: " + err.Error())
			}
		}
		if s.Separate {
			wf = newRolling(s, rollName+".wf")
			if s.MaxAge2 > 0 {
				wf.MaxAge = int32(s.MaxAge2) // every appender applies its own retention to its own files
			}
			if err := wf.Start(); err != nil {
				panic("harness: " + err.Error())
			}
		}
		stop = func() {
			a.Stop()
			if wf != nil {
				wf.Stop()
			}
		}
	}
	for _, k := range s.FaultDir {
		if k == "open-once" {
			// the creation of one of the next files fails (descriptor table full): no file may be lost over it
			x.FS.AddFault(&simos.FaultRule{Op: "open", Prefix: rollDir, Err: syscall.EMFILE, Skip: int(s.Knobs.MapSeed % 3), Count: 1})
		}
	}
	boundaries := 0
	clockEnv(x, s, &boundaries)
	// somebody else touches one of the old files (appends a line, restores it from a backup):
	// from then on it is as young as its new modification time
	touched := map[string]time.Time{}
	touches := 0
	x.Sim.AddEnv(&verifsim.EnvAction{Name: "touch", Enabled: func() bool { return s.Touch && touches < 2 && len(s.Pop) > 0 }, Run: func() {
		pf := s.Pop[(int(s.Knobs.MapSeed)*touches+touches)%len(s.Pop)] // the first touch goes to the first file
		touches++
		if !pf.Dir && x.FS.SetMtime(rollDir+"/"+pf.Name, verifsim.Now()) {
			touched[pf.Name] = verifsim.Now()
			x.Sim.Probe("old_file_touched")
		}
	}})
	var writes []*rollWrite
	for w := range s.Writers {
		x.Sim.Spawn(fmt.Sprintf("writer%d", w), func() {
			for i, size := range s.Writers[w] {
				rw := &rollWrite{ID: fmt.Sprintf("w%d-%d", w, i), Payload: rollPayload(w, i, size%3000), Start: verifsim.Now()}
				writes = append(writes, rw)
				pv, _ := call(func() { write(rw.Payload) })
				rw.End = verifsim.Now()
				rw.Panic, rw.Returned = pv, pv == nil
				verifsim.Yield("writer.between")
			}
		})
	}
	if wf != nil {
		x.Sim.Spawn("wf-writer", func() {
			for i := 0; i < 3; i++ {
				call(func() { wf.Write([]byte(fmt.Sprintf("<wf-%d>\n", i))) })
				verifsim.Yield("writer.between")
			}
		})
	}
	res := x.Sim.Run(nil)
	if len(x.clientsStuck()) > 0 || res.StepCap {
		o.violate("blocked", "C14/blocked", "run did not finish: %+v", res)
	}
	// the file the appender is writing to right now is never a candidate, whatever failed before:
	// a line written at this point (no boundary in between) must be readable from the directory
	if !s.ViaLogger {
		probe := fmt.Sprintf("<probe-current-%d>\n", len(writes))
		x.do("probe-writer", func() { call(func() { write(probe) }) })
		if _, n := locate(x.FS.AllFiles(), probe); n != 1 && len(x.FS.FailedWriteSet()) == 0 {
			o.violate("current-file-deleted", "C14/current-file-deleted", "a line written after the run (no boundary crossed since the last write) is in no file of the directory: the file being written was removed (dir faults %v, maxAge %dh)", s.FaultDir, s.MaxAge)
		}
	}
	// one more rotation after all clock decisions: its cleanup is the one that settles the directory
	x.Sim.Advance(iv)
	tLastRot := verifsim.Now()
	firedBeforeLast := firedTotal()
	x.Sim.Spawn("last-writer", func() {
		call(func() { write("<last>\n") })
		if wf != nil {
			call(func() { wf.Write([]byte("<wf-last>\n")) })
		}
	})
	x.Sim.Run(nil)
	tEnd := verifsim.Now()
	// the last cleanup counts as fault-free when no injected failure fired from the last rotation on
	lastSweepClean := firedTotal() == firedBeforeLast
	x.Sim.Spawn("stopper", stop)
	x.Sim.Run(nil)
	for _, t := range x.Sim.Died() {
		if t.Daemon {
			o.violate("library-goroutine-panic", "C14/cleanup-panic", "cleanup goroutine %s panicked: %v", t.Name, t.Panic)
		} else {
			panic(fmt.Sprintf("harness: task %s died: %v\n%s", t.Name, t.Panic, t.Stack))
		}
	}
	x.Sim.Close()
	maxAge := time.Duration(s.MaxAge) * time.Hour
	survivors := map[string]bool{}
	for _, e := range x.FS.List(rollDir) {
		survivors[e.Name] = true
	}
	expiredOwn, other := 0, 0
	for _, pf := range s.Pop {
		// the .wf files belong to the sibling appender; it only cleans up when it rotates itself
		// (never in the logger-built variant, where it stays idle)
		// (with a directory part in the file name no entry of the log directory can carry the
		// appender's "<name>." prefix: everything listed there is somebody else's)
		own := !s.SubDir && !pf.Dir && (ownRe.MatchString(pf.Name) || (s.Separate && !s.ViaLogger && ownWfRe.MatchString(pf.Name)))
		maxAge := maxAge
		if s.MaxAge2 > 0 && ownWfRe.MatchString(pf.Name) {
			maxAge = time.Duration(s.MaxAge2) * time.Hour
		}
		mt := mtimeOf(pf)
		tt, wasTouched := touched[pf.Name]
		if wasTouched {
			if mt.Before(tt.Add(-maxAge)) {
				continue // already expired when it was touched: a sweep that had looked at it just before may still remove it
			}
			mt = tt // young before, younger now
		}
		mustGo := own && !wasTouched && mt.Before(tLastRot.Add(-maxAge)) // older than the cut-off of the last cleanup, whenever it ran
		mustStay := !own || !mt.Before(tEnd.Add(-maxAge))           // not an own file, or still young when the run ended
		if mustGo {
			expiredOwn++
		} else if own || mt.Before(tLastRot.Add(-maxAge)) {
			other++
		}
		switch {
		case mustGo && survivors[pf.Name] && (len(s.FaultDir) == 0 || lastSweepClean):
			after := ""
			if len(s.FaultDir) > 0 {
				after = "/after-earlier-failures"
			}
			o.violate("expired-own-file-kept", "C14/expired-own-file-kept"+after, "own file %s (mtime %s, %s before the last rotation at %s; maxAge %dh) survived a fault-free cleanup (injected failures before it: %v)", pf.Name, mt.Format(time.RFC3339), tLastRot.Sub(mt), tLastRot.Format(time.RFC3339), s.MaxAge, s.FaultDir)
		case mustStay && !survivors[pf.Name]:
			class := "foreign"
			switch {
			case pf.Dir:
				class = "directory"
			case own:
				class = "own-but-fresh"
			}
			o.violate("wrong-file-deleted", "C14/wrong-file-deleted/"+class, "cleanup of appender %q (maxAge %dh) removed %s (mtime %s, run ended %s, dir=%v): not one of its own expired files", rollName, s.MaxAge, pf.Name, mt.Format(time.RFC3339), tEnd.Format(time.RFC3339), pf.Dir)
		}
	}
	// what was written during the run is younger than maxAge as long as the run itself was shorter
	if tEnd.Sub(start) < maxAge-time.Minute && !s.ViaLogger {
		files := x.FS.AllFiles()
		for _, w := range writes {
			if w.Returned {
				if _, n := locate(files, w.Payload); n != 1 {
					o.violate("current-file-deleted", "C14/written-data-missing", "write %s found %d times after cleanup", w.ID, n)
				}
			}
		}
	}
	if s.ViaLogger {
		// the idle sibling's current file must still be there
		found := false
		for name := range survivors {
			if ownWfRe.MatchString(name) && !popHas(s.Pop, name) {
				found = true
			}
		}
		if !found && tEnd.Sub(start) < maxAge-time.Minute {
			o.violate("wrong-file-deleted", "C14/wrong-file-deleted/sibling-current-file", "the .wf appender's current file is gone although it is younger than maxAge and only the normal appender rotated")
		}
	}
	o.Reached = x.Sim.Probes["boundary_crossed"] > 0 && (expiredOwn > 0 || s.SubDir) && other > 0
	if s.SubDir {
		x.Sim.Probe("file_name_with_directory_part")
	}
	o.ScnDistinct = true
}

func popHas(pop []PopFile, name string) bool {
	for _, p := range pop {
		if p.Name == name {
			return true
		}
	}
	return false
}

// Grid enumerates every placement of one outage (4 kinds) in a fixed
// sequential script of 5 writes separated by 4 boundary crossings, for two
// interval lengths: the outage starts before script position i and ends before
// position j > i (or never within the script).
func (c19) Grid() []any {
	base := []string{"w", "clk", "w", "clk", "w", "clk", "w", "clk", "w"}
	var out []any
	for _, iv := range []string{"1s", "10m"} {
		for _, kind := range []string{"rename", "emfile", "enospc", "eacces"} {
			for i := 0; i <= len(base); i++ {
				for j := i; j <= len(base)+1; j++ {
					var script []string
					for p := 0; p <= len(base); p++ {
						if p == i {
							script = append(script, "out:"+kind)
						}
						if p == j && j <= len(base) {
							script = append(script, "restore")
						}
						if p < len(base) {
							script = append(script, base[p])
						}
					}
					out = append(out, &RollScn{Interval: iv, MaxAge: 100000, Writers: [][]int{{10}}, Script: script,
						Knobs: SimKnobs{Chunks: 1, OffsetMs: int64(len(out)%3) * 499}})
				}
			}
		}
	}
	// the same enumeration for (a) two appenders sharing the directory, whose writes alternate, and
	// (b) a retention period (1 h) no longer than the outage, with hourly rotation
	place := func(base []string, kind string, f func(script []string)) {
		for i := 0; i <= len(base); i++ {
			for j := i; j <= len(base)+1; j++ {
				var script []string
				for p := 0; p <= len(base); p++ {
					if p == i {
						script = append(script, "out:"+kind)
					}
					if p == j && j <= len(base) {
						script = append(script, "restore")
					}
					if p < len(base) {
						script = append(script, base[p])
					}
				}
				f(script)
			}
		}
	}
	// a long quiet interval with many writes, the directory away in the middle of it: the handle the
	// appender holds stays good, nothing it does every N-th write may change that
	for _, n := range []int{1030, 2100} {
		var script []string
		for i := 0; i < n; i++ {
			if i == n/4 {
				script = append(script, "out:rename")
			}
			if i == n-5 {
				script = append(script, "restore")
			}
			script = append(script, "w")
		}
		out = append(out, &RollScn{Interval: "h", MaxAge: 100000, Writers: [][]int{{10}}, Script: script, Knobs: SimKnobs{Chunks: 1}})
	}
	// outages that last many boundaries (9-13): however often creation failed, the next boundary tries again
	for _, kind := range []string{"rename", "emfile"} {
		for n := 9; n <= 13; n++ {
			script := []string{"w", "out:" + kind}
			for i := 0; i < n; i++ {
				script = append(script, "clk", "w")
			}
			script = append(script, "restore", "clk", "w", "clk", "w")
			out = append(out, &RollScn{Interval: "1s", MaxAge: 100000, Writers: [][]int{{10}}, Script: script, Knobs: SimKnobs{Chunks: 1, OffsetMs: int64(len(out)%3) * 499}})
		}
	}
	for _, kind := range []string{"rename", "emfile"} {
		place([]string{"w", "v", "clk", "w", "v", "clk", "v", "w", "clk", "w", "v"}, kind, func(script []string) {
			out = append(out, &RollScn{Interval: "1s", MaxAge: 100000, Writers: [][]int{{10}}, Script: script, Knobs: SimKnobs{Chunks: 1, OffsetMs: int64(len(out)%3) * 499}})
		})
		place([]string{"w", "clk", "w", "clk", "w", "w", "clk", "w", "clk", "w"}, kind, func(script []string) {
			out = append(out, &RollScn{Interval: "h", MaxAge: 1, Writers: [][]int{{10}}, Script: script, Knobs: SimKnobs{Chunks: 1, OffsetMs: int64(len(out)%3) * 499}})
		})
	}
	return out
}
