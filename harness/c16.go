package harness

import (
	"bytes"
	"encoding/json"
	"fmt"
	"strings"

	log "github.com/go-spring/log"
	"pgregory.net/rapid"
)

// C16 — logging never panics in any lifecycle state; Refresh/Destroy cycle is sane.

type LOp struct {
	Op    string `json:"op"`            // refreshA refreshB refreshBadEarly refreshBadLate destroy log write regtag gethandle
	Arg   string `json:"arg,omitempty"` // tag / handle name, bad-config variant
	Level string `json:"level,omitempty"`
}

type C16Scn struct {
	Knobs  SimKnobs `json:"knobs"`
	Style  Style    `json:"style"`
	Ops    []LOp    `json:"ops"`
	WidthA int      `json:"width_a"` // fileLineLength of the text layouts in configuration A
	RelDir int      `json:"rel_dir,omitempty"` // 1, 2: the file appenders' fileDir is relative ("./logs", "logs"; the attribute's default is relative too)
}

// c16LogDir is the fileDir the configurations are rendered with (set per case by Run).
var c16LogDir = "/logs"

func (s *C16Scn) knobs() SimKnobs { return s.Knobs }

type c16 struct{}

func init() { register(c16{}) }

func (c16) ID() string    { return "C16" }
func (c16) Level() string { return "exploration" }
func (c16) Rule() string {
	return "case = operation history of length <= 8 (thorough <= 12) over {Refresh(valid A), Refresh(valid B), Refresh(invalid, failing before or after start-up: no appenders, unknown type, start failure on the simulated disk, bufferSize < 100, bad property value, unconfigured requested handle), Destroy, log through a tag at some level, raw write through a named handle, register a tag, obtain a handle}; A and B contain sync, async, file and console pieces and different tag lists. The file appenders' fileDir is /logs, ./logs or logs (working directory of the simulated process: /). After every operation the simulated system runs to quiescence and the operation's effect is compared with a lifecycle state machine: no panic except the documented refusal of registration while a configuration is live, no blocked call, output exactly where the model says (the configured recording appender / file, or the built-in console whenever no configuration is live), second Refresh rejected without changing routing, Destroy idempotent, no descriptor left open by Destroy. Outcomes the statement leaves open (registration and a further Refresh between a failed Refresh and the next Destroy) are not judged. Non-trivial = at least three of the four lifecycle states (never configured, live, failed, destroyed) were visited with a log or write in each; distinct = distinct operation histories x rendering style x context-switch trace."
}
func (c16) Decode(raw json.RawMessage) (any, error) {
	var s C16Scn
	err := json.Unmarshal(raw, &s)
	return &s, err
}

var c16Tags = []string{"svc_api", "aud_log", "_app_def", "oth_misc"}
var c16Handles = []string{"svc", "aud", "root", "nosuch"}

func (c16) Gen(rt *rapid.T, thorough bool) any {
	s := &C16Scn{Knobs: genKnobs(rt), Style: genStyle(rt)}
	s.WidthA = rapid.SampledFrom([]int{0, 0, 1, 2, 3, 7, 60}).Draw(rt, "width_a")
	s.RelDir = rapid.SampledFrom([]int{0, 0, 0, 1, 2}).Draw(rt, "rel_dir")
	maxLen := 8
	if thorough {
		maxLen = 12
	}
	n := rapid.IntRange(1, maxLen).Draw(rt, "nops")
	for i := 0; i < n; i++ {
		op := LOp{Op: rapid.SampledFrom([]string{"refreshA", "refreshA", "refreshB", "refreshBadEarly", "refreshBadLate", "destroy", "destroy", "log", "log", "log", "write", "write", "regtag", "gethandle"}).Draw(rt, "op")}
		switch op.Op {
		case "log":
			op.Arg = rapid.SampledFrom(c16Tags).Draw(rt, "tag")
			op.Level = rapid.SampledFrom([]string{"TRACE", "INFO", "WARN", "ERROR", "FATAL"}).Draw(rt, "level")
		case "write":
			op.Arg = rapid.SampledFrom(c16Handles[:3]).Draw(rt, "handle")
		case "regtag":
			op.Arg = rapid.SampledFrom([]string{"svc_new", "oth_new", "aud_new"}).Draw(rt, "newtag")
		case "gethandle":
			op.Arg = rapid.SampledFrom(c16Handles).Draw(rt, "newhandle")
		case "refreshBadEarly":
			op.Arg = rapid.SampledFrom([]string{"no-appenders", "unknown-appender-type", "unknown-logger-type", "dangling-ref", "bad-tags"}).Draw(rt, "bad_early")
		case "refreshBadLate":
			op.Arg = rapid.SampledFrom([]string{"missing-dir", "small-buffer", "bad-property"}).Draw(rt, "bad_late")
		}
		s.Ops = append(s.Ops, op)
	}
	return s
}

// configuration A: root -> rA0 ; svc (async) tags svc_*,_app_* -> rA1 + file ; all levels
// configuration B: svc (sync) tags svc_* -> rB0 [INFO..) ; aud (async) tags aud_* -> rB1 ; no root
func c16Config(which string, st Style, widthA int) *SysSpec {
	sp := &SysSpec{Style: st, Props: map[string]string{"enableCaller": "false"}}
	if which == "B" {
		// the two configurations differ in a process-wide property: a rejected Refresh(B)
		// must not switch caller lookup on under a live A (and the other way round)
		sp.Props["enableCaller"] = "true"
	}
	switch which {
	case "A":
		// the file appender carries the same name as the logger that uses it (separate name spaces); rS is referenced by nobody; it logs through a tag from inside its Start, i.e. while Refresh is under way
		sp.Apps = []AppSpec{{Name: "rA0", Type: "Rec"}, {Name: "rA1", Type: "Rec"}, {Name: "svc", Type: "File", FileDir: c16LogDir, FileName: "a.log", Width: widthA}, {Name: "cA", Type: "Console", Width: widthA}, {Name: "rS", Type: "Rec", StartLog: true}}
		sp.Logs = []LogSpec{
			{Name: "root", Type: "Logger", Refs: []RefSpec{{Ref: "rA0"}, {Ref: "cA", Level: "FATAL"}}},
			{Name: "svc", Type: "AsyncLogger", Tags: []string{"svc_*", "_app_*"}, BufferSize: 100, Policy: "Block", Refs: []RefSpec{{Ref: "rA1"}, {Ref: "svc", Level: "WARN"}}},
		}
	case "B":
		sp.Apps = []AppSpec{{Name: "rB0", Type: "Rec"}, {Name: "rB1", Type: "Rec"}}
		sp.Logs = []LogSpec{
			{Name: "svc", Type: "Logger", Tags: []string{"svc_*"}, Level: "INFO", Refs: []RefSpec{{Ref: "rB0"}}},
			{Name: "aud", Type: "AsyncLogger", Tags: []string{"aud_*"}, Refs: []RefSpec{{Ref: "rB1"}}},
		}
	}
	return sp
}

func c16Bad(kind string, st Style) map[string]string {
	sp := c16Config("B", st, 0)
	switch kind {
	case "no-appenders":
		sp.Apps = nil
	case "unknown-appender-type":
		sp.Apps[0].Type = "NoSuchAppender"
	case "unknown-logger-type":
		sp.Logs[0].Type = "NoSuchLogger"
	case "dangling-ref":
		sp.Logs[0].Refs[0].Ref = "ghost"
	case "bad-tags":
		sp.Logs[0].Tags = []string{"svc*"}
	case "missing-dir":
		sp.Apps = append(sp.Apps, AppSpec{Name: "fbad", Type: "File", FileDir: "/no/such/dir", FileName: "x.log"})
		sp.Logs[0].Refs = append(sp.Logs[0].Refs, RefSpec{Ref: "fbad", Level: "FATAL"})
	case "small-buffer":
		sp.Apps = append(sp.Apps, AppSpec{Name: "fok", Type: "File", FileDir: c16LogDir, FileName: "late.log"})
		sp.Logs[0].Refs = append(sp.Logs[0].Refs, RefSpec{Ref: "fok", Level: "FATAL"})
		sp.Logs[1].BufferSize = 50
	case "bad-property":
		sp.Apps = append(sp.Apps, AppSpec{Name: "fok", Type: "File", FileDir: c16LogDir, FileName: "late.log"})
		sp.Logs[0].Refs = append(sp.Logs[0].Refs, RefSpec{Ref: "fok", Level: "FATAL"})
		sp.Props["bufferCap"] = "lots"
	}
	return sp.Render()
}

// lifecycle model
type lcModel struct {
	live    string // "", "A", "B"
	dirty   bool   // a Refresh failed since the last Destroy / start: registration and further Refresh unspecified
	ever    bool   // some Refresh succeeded at least once
	tags    map[string]*log.Tag
	handles map[string]*log.LoggerWrapper
}

// route returns the recording sinks an event through tag at level must reach ("console" = built-in console).
func (m *lcModel) route(tag string, code int32) []string {
	switch m.live {
	case "A":
		// open-ended references end where the next higher lower bound begins
		if strings.HasPrefix(tag, "svc_") || strings.HasPrefix(tag, "_app_") {
			if code >= 400 {
				return []string{"file:/logs/a.log"}
			}
			return []string{"rA1"}
		}
		if code >= 700 {
			return []string{"stdout"}
		}
		return []string{"rA0"}
	case "B":
		switch {
		case strings.HasPrefix(tag, "svc_"):
			if code >= 300 {
				return []string{"rB0"}
			}
			return nil
		case strings.HasPrefix(tag, "aud_"):
			return []string{"rB1"}
		}
		return []string{"stdout"}
	}
	return []string{"stdout"}
}

func (m *lcModel) routeHandle(name string) []string {
	switch m.live {
	case "A":
		switch name {
		case "svc":
			return []string{"rA1", "file:/logs/a.log"}
		case "root":
			return []string{"rA0", "stdout"}
		}
	case "B":
		switch name {
		case "svc":
			return []string{"rB0"}
		case "aud":
			return []string{"rB1"}
		case "root":
			return []string{"stdout"}
		}
	}
	return []string{"stdout"}
}

func (c16) Run(x *Exec, scn any) {
	s := scn.(*C16Scn)
	o := x.Out
	o.ScnDistinct = true
	x.FS.MkdirAll("/logs")
	// a relative fileDir names the same directory as long as the process stays where it is: the
	// working directory of the simulated process is "/", so the model's paths do not change
	c16LogDir = []string{"/logs", "./logs", "logs"}[s.RelDir]
	defer func() { c16LogDir = "/logs" }()
	if s.RelDir > 0 {
		x.FS.Chdir("/")
		x.Sim.Probe("relative_file_dir")
	}
	installHooks(true, false, false)
	m := &lcModel{tags: map[string]*log.Tag{}, handles: map[string]*log.LoggerWrapper{}}
	for _, t := range c16Tags {
		m.tags[t] = log.RegisterTag(t)
	}
	m.handles["svc"] = log.GetLogger("svc")
	visited := map[string]bool{}
	stateName := func() string {
		switch {
		case m.live != "":
			return "live"
		case m.dirty:
			return "failed"
		case m.ever:
			return "destroyed"
		}
		return "never"
	}
	seq := 0
	// sinkState snapshots everything observable
	count := func() map[string]int {
		out := map[string]int{"stdout": len(x.FS.StdoutWrites())}
		for _, r := range []string{"rA0", "rA1", "rB0", "rB1"} {
			out[r] = len(getRec(r).snapshot())
		}
		for p, d := range x.FS.AllFiles() {
			out["file:"+p] = bytes.Count(d, []byte("\n"))
		}
		return out
	}
	// an application loads its configuration once and hands the same map to every Refresh
	// (odd map seeds; the others build a fresh map per call)
	cfgA, cfgB := c16Config("A", s.Style, s.WidthA).Render(), c16Config("B", s.Style, 0).Render()
	configOf := func(which string) map[string]string {
		if s.Knobs.MapSeed%2 == 1 {
			if which == "A" {
				return cfgA
			}
			return cfgB
		}
		return c16Config(which, s.Style, map[string]int{"A": s.WidthA}[which]).Render()
	}
	for k, op := range s.Ops {
		before := count()
		var pv any
		var pst string
		var err error
		desc := fmt.Sprintf("op %d %s(%s) in state %s", k, op.Op, op.Arg, stateName())
		var marker string
		x.Sim.Spawn(fmt.Sprintf("op%d", k), func() {
			switch op.Op {
			case "refreshA":
				pv, pst = call(func() { err = log.Refresh(configOf("A")) })
				pst = panicSite(pst)
			case "refreshB":
				pv, pst = call(func() { err = log.Refresh(configOf("B")) })
				pst = panicSite(pst)
			case "refreshBadEarly", "refreshBadLate":
				pv, pst = call(func() { err = log.Refresh(c16Bad(op.Arg, s.Style)) })
				pst = panicSite(pst)
			case "destroy":
				pv, pst = call(log.Destroy)
				pst = panicSite(pst)
			case "log":
				seq++
				// through the entry point that belongs to the level (plain and lazy / formatted variants
				// alternate), every third time through Record
				kind := 14
				if ks, ok := map[string][2]int{"TRACE": {5, 9}, "DEBUG": {6, 10}, "INFO": {0, 3}, "WARN": {1, 11}, "ERROR": {2, 4}, "PANIC": {7, 12}, "FATAL": {8, 13}}[op.Level]; ok && seq%3 != 0 {
					kind = ks[seq%2]
				}
				sb := emit(0, seq, m.tags[op.Arg], op.Arg, EvOp{Kind: kind, Size: 3}, levelByName(op.Level))
				marker = sb.ID
				pv, pst = sb.Panic, sb.PanicAt
			case "write":
				seq++
				marker = fmt.Sprintf("t0s%d", seq)
				h := m.handles[op.Arg]
				if h == nil {
					return
				}
				payload := []byte(fmt.Sprintf("raw:%s:via-%s\n", marker, op.Arg))
				var st string
				pv, st = call(func() { h.Write(payload) })
				pst = panicSite(st)
			case "regtag":
				name := fmt.Sprintf("%s%d", op.Arg, k)
				var st string
				var t *log.Tag
				pv, st = call(func() { t = log.RegisterTag(name) })
				pst = panicSite(st)
				if pv == nil {
					m.tags[name] = t
				}
			case "gethandle":
				var st string
				var h *log.LoggerWrapper
				pv, st = call(func() { h = log.GetLogger(op.Arg) })
				pst = panicSite(st)
				if pv == nil {
					if old := m.handles[op.Arg]; old != nil && old != h {
						o.violate("handle-identity", "C16/handle-not-same", "%s: GetLogger(%q) returned a different handle", desc, op.Arg)
					}
					m.handles[op.Arg] = h
				}
			}
		})
		x.Sim.Run(nil)
		if st := x.clientsStuck(); len(st) > 0 {
			o.violate("blocked", "C16/call-blocked/"+op.Op+"/"+stateName(), "%s did not return: %v", desc, st)
			break
		}
		judgeDied(x, "C16")
		after := count()
		delta := map[string]int{}
		for k2, v := range after {
			if d := v - before[k2]; d != 0 {
				delta[k2] = d
			}
		}
		// ---- judge against the model
		switch op.Op {
		case "refreshA", "refreshB":
			which := strings.TrimPrefix(op.Op, "refresh")
			if pv != nil {
				o.violate("refresh-panic", "C16/refresh-panic/"+pst, "%s panicked: %v", desc, pv)
				break
			}
			if sp := getRec("rS").StartPanic; sp != "" {
				o.violate("log-during-refresh-panic", "C16/log-call-from-a-starting-component-panicked", "%s: an appender that logs through a tag from inside its Start saw that call panic: %s", desc, sp)
				break
			}
			// requested handles must exist in the configuration
			missing := ""
			for name := range m.handles {
				ok := name == "root" || name == "svc" || (which == "B" && name == "aud")
				if !ok {
					missing = name
				}
			}
			switch {
			case m.live != "":
				if err == nil {
					o.violate("second-refresh-accepted", "C16/second-refresh-accepted", "%s succeeded although configuration %s is live", desc, m.live)
					m.live = which
				}
			case missing != "":
				if err == nil {
					o.violate("unconfigured-handle-accepted", "C16/unconfigured-handle-accepted", "%s succeeded although handle %q is not configured", desc, missing)
					m.live = which
				} else {
					m.dirty = true
				}
			case m.dirty:
				// unspecified whether a Refresh right after a failed one must work: follow the implementation
				if err == nil {
					m.live, m.dirty, m.ever = which, false, true
				}
			default:
				if err != nil {
					o.violate("valid-refresh-rejected", "C16/valid-refresh-rejected/"+stateName(), "%s failed: %v", desc, err)
					m.dirty = true
				} else {
					m.live, m.ever = which, true
				}
			}
		case "refreshBadEarly", "refreshBadLate":
			if pv != nil {
				o.violate("refresh-panic", "C16/refresh-panic/"+pst, "%s panicked: %v", desc, pv)
			} else if err == nil {
				o.violate("invalid-refresh-accepted", "C16/invalid-refresh-accepted/"+op.Arg, "%s returned nil", desc)
			}
			if m.live == "" {
				m.dirty = true
			}
		case "destroy":
			if pv != nil {
				o.violate("destroy-panic", "C16/destroy-panic/"+pst, "%s panicked: %v", desc, pv)
			}
			m.live, m.dirty = "", false
			if n := x.FS.OpenCount(); n != 0 {
				o.violate("descriptor-after-destroy", "C16/descriptor-open-after-destroy", "%s: %d descriptors still open: %v", desc, n, x.FS.Handles())
			}
		case "log", "write":
			visited[stateName()] = true
			if pv != nil {
				o.violate("log-panic", "C16/"+op.Op+"-panic/"+stateName()+"/"+pst, "%s panicked: %v", desc, pv)
				break
			}
			if op.Op == "write" && m.handles[op.Arg] == nil {
				break
			}
			var want []string
			if op.Op == "log" {
				code := levelCodes[op.Level]
				want = m.route(op.Arg, code)
			} else {
				want = m.routeHandle(op.Arg)
			}
			wantSet := map[string]bool{}
			for _, w := range want {
				wantSet[w] = true
			}
			for sink := range wantSet {
				if delta[sink] != 1 {
					o.violate("misrouted", "C16/output-missing/"+op.Op+"/"+stateName(), "%s: expected one record at %s, sinks changed by %v (model routes to %v)", desc, sink, delta, want)
					break
				}
			}
			for sink, d := range delta {
				if !wantSet[sink] {
					o.violate("misrouted", "C16/output-at-wrong-sink/"+op.Op+"/"+stateName(), "%s: %d record(s) appeared at %s, model routes to %v", desc, d, sink, want)
					break
				}
			}
			if op.Op == "log" && m.live != "" {
				// the live configuration's properties must be the ones in force
				wantCaller := m.live == "B"
				for sink := range wantSet {
					if !strings.HasPrefix(sink, "r") {
						continue
					}
					items := getRec(sink).snapshot()
					if len(items) == 0 || items[len(items)-1].Ev == nil {
						continue
					}
					if got := items[len(items)-1].Ev.File != ""; got != wantCaller {
						o.violate("property-disturbed", "C16/live-configuration-property-changed", "%s: configuration %s is live (enableCaller=%v) but the event carries file=%q", desc, m.live, wantCaller, items[len(items)-1].Ev.File)
					}
				}
			}
		case "regtag", "gethandle":
			refused := pv != nil
			switch {
			case m.live != "" && !refused:
				o.violate("registration-accepted-while-live", "C16/registration-accepted-while-live/"+op.Op, "%s succeeded while configuration %s is live", desc, m.live)
			case m.live == "" && !m.dirty && refused:
				o.violate("registration-refused", "C16/registration-refused-without-live-config/"+op.Op+"/"+stateName(), "%s panicked although no configuration is live: %v", desc, pv)
			}
		}
		if len(o.Violations) > 0 {
			break
		}
	}
	// leave cleanly
	x.Sim.Spawn("final-destroy", func() { call(log.Destroy) })
	x.Sim.Run(nil)
	x.Sim.Close()
	o.Reached = len(visited) >= 3
	for st := range visited {
		x.Sim.NoteState("logged-in-" + st)
	}
}
