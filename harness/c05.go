package harness

import (
	"encoding/json"
	"fmt"
	"strings"
	"syscall"
	"time"

	log "github.com/go-spring/log"
	"github.com/go-spring/log/verifsim"
	"github.com/go-spring/log/verifsim/simos"
	"pgregory.net/rapid"
)

// C05 — Stop/Destroy terminates and flushes everything accepted before it.

type c05 struct{}

func init() { register(c05{}) }

func (c05) ID() string    { return "C05" }
func (c05) Level() string { return "exploration" }
func (c05) Rule() string {
	return "case = one logger of every kind (AsyncLogger with recording appenders; sync Logger over File+Console appenders; Console, File and RollingFile loggers, the latter sync or async=true, with or without separate .wf file, with or without a logger-level layout), built directly or by Refresh from a randomly spelled configuration; 1-3 producers submit events (all return before Stop); the async buffer is driven to a chosen occupancy 0..capacity with the worker idle, slow, or held at a gate that the scheduler opens at chosen steps; then Stop (or Destroy), sometimes twice. Oracles: Stop returns in the fair phase (else the exact deadlock/livelock verdict of the scheduler); at the very step it returns every accepted item is in its sink; no descriptor stays open; a running rolling appender holds at most two. Non-trivial = Stop was invoked with at least one item still buffered or in the worker's hand (async kinds) or at least one preemption (sync kinds); distinct = distinct context-switch trace hashes. The occupancy x worker-state histogram is reported as abstract states. Further kinds: two AsyncLoggers over one shared File appender with starved workers (Destroy must flush both); a sink that takes 120/400 ms of simulated time per item with a backlog of half to full capacity (Stop waits as long as the drain takes); a quarter of the directly built AsyncLoggers are in their second life (Start, 3 items, Stop, Start on the same object). The producer phase ends when the last log call returns, so backlogs are real."
}
func (c05) Decode(raw json.RawMessage) (any, error) {
	var s AsyncScn
	err := json.Unmarshal(raw, &s)
	return &s, err
}

func (c05) Gen(rt *rapid.T, thorough bool) any {
	s := genAsyncBase(rt, thorough)
	s.Kind = rapid.SampledFrom([]string{"AsyncLogger", "AsyncLogger", "Logger", "File", "Console", "RollingFile", "RollingFile", "AsyncShared", "TwinFile"}).Draw(rt, "kind5")
	s.Level = rapid.SampledFrom([]string{"", "", "DEBUG"}).Draw(rt, "level5")
	s.StopTwice = rapid.IntRange(0, 3).Draw(rt, "stop_twice") == 0
	s.SyncFail = rapid.IntRange(0, 4).Draw(rt, "sync_fail") == 0
	s.WriteFail = rapid.IntRange(0, 4).Draw(rt, "write_fail5") == 0
	s.Rejected = rapid.IntRange(0, 4).Draw(rt, "rejected") == 0
	switch s.Kind {
	case "AsyncLogger":
		s.Refs = []RefSpec{{Ref: "rec0"}}
		s.LLayout = ""
		s.Gate = rapid.SampledFrom([]int{0, 1, 1}).Draw(rt, "gate5")
		s.Slow = rapid.SampledFrom([]int{0, 0, 3}).Draw(rt, "slow5")
		s.Prefill = rapid.SampledFrom([]int{0, 1, 2, s.BufferSize / 2, s.BufferSize - 1, s.BufferSize, s.BufferSize + 1, s.BufferSize + 5}).Draw(rt, "occupancy")
		genProducers(rt, s, 3, 12, 3)
		if s.Via == "refresh" && rapid.IntRange(0, 3).Draw(rt, "handle_only") == 0 {
			s.HandleOnly = true
			for p := range s.Producers {
				for i := range s.Producers[p] {
					s.Producers[p][i].Raw = true
					if s.Producers[p][i].Size < 0 {
						s.Producers[p][i].Size = 2
					}
				}
			}
		}
		if rapid.IntRange(0, 5).Draw(rt, "slow_sink") == 0 {
			// a sink that takes (simulated) time per item: flushing a backlog takes as long as
			// it takes, and Stop has to wait for all of it
			s.SleepMs = rapid.SampledFrom([]int{120, 400}).Draw(rt, "sleep_ms")
			s.Gate, s.Slow, s.Knobs.AutoAdvS = 0, 0, 600
			s.Prefill = rapid.SampledFrom([]int{s.BufferSize / 2, s.BufferSize - 1, s.BufferSize}).Draw(rt, "occupancy_slow")
		}
	default:
		s.Refs = nil
		s.Gate, s.Slow, s.Prefill = 0, 0, 0
		if s.Kind == "Logger" || s.Kind == "AsyncShared" {
			s.Via = "refresh"
		}
		if s.Kind == "AsyncShared" && rapid.IntRange(0, 3).Draw(rt, "starve_shared") != 0 {
			// two async loggers over one shared file appender, their workers behind: both have a backlog at Destroy
			s.Knobs.Starve = []string{"go@plugin_logger"}
		}
		if s.Kind == "RollingFile" {
			s.RotMs = rapid.SampledFrom([]int{3600000, 2000, 2000}).Draw(rt, "rot_ms")
			for i, n := 0, rapid.IntRange(0, 3).Draw(rt, "nclock5"); i < n; i++ {
				s.Clock = append(s.Clock, rapid.SampledFrom([]int{700, 2100, 4500}).Draw(rt, "clock5"))
			}
			s.Separate = rapid.Bool().Draw(rt, "separate5")
			s.RAsync = rapid.Bool().Draw(rt, "rasync")
			if !rapid.Bool().Draw(rt, "rlayout") {
				s.LLayout = ""
			} else if s.LLayout == "" {
				s.LLayout = "JSONLayout"
			}
		}
		genProducers(rt, s, 3, 30, 0)
	}
	for p := range s.Producers {
		for i := range s.Producers[p] {
			if !s.Producers[p][i].Raw {
				s.Producers[p][i].Lvl = rapid.SampledFrom([]string{"TRACE", "INFO", "WARN", "ERROR"}).Draw(rt, "lvl5")
			}
			if s.Kind != "AsyncLogger" {
				s.Producers[p][i].Raw = false
			}
		}
	}
	return s
}

// runTwinFile: two file appenders on the same path (two loggers left at the same file name). One is
// stopped - twice, which appenders tolerate - while the other keeps writing and is stopped later.
func (c05) runTwinFile(x *Exec, s *AsyncScn) {
	o := x.Out
	lay := func() log.Layout { return &log.TextLayout{BaseLayout: log.BaseLayout{FileLineLength: 48}} }
	a := &log.FileAppender{Layout: lay(), FileDir: "/logs", FileName: "twin.log"}
	b := &log.FileAppender{Layout: lay(), FileDir: "/logs", FileName: "twin.log"}
	if err := a.Start(); err != nil {
		panic("harness: " + err.Error())
	}
	if err := b.Start(); err != nil {
		panic("harness: " + err.Error())
	}
	var want []string
	ok := x.do("twin", func() {
		w := func(ap *log.FileAppender, id string) {
			ap.Write([]byte("raw:" + id + ":x\n"))
			want = append(want, id)
		}
		w(a, "t0s0")
		w(b, "t1s0")
		a.Stop()
		if s.StopTwice {
			a.Stop()
		}
		w(b, "t1s1")
		w(b, "t1s2")
		b.Stop()
	})
	x.Sim.Close()
	if !ok {
		o.violate("stop-does-not-return", "C05/stop-does-not-return/TwinFile", "stopping one of two file appenders on the same path did not return: %v", x.clientsStuck())
		return
	}
	o.Reached = true
	data, _ := x.FS.ReadFile("/logs/twin.log")
	for _, id := range want {
		if !strings.Contains(string(data), "raw:"+id+":") {
			o.violate("not-flushed", "C05/accepted-item-not-in-sink-at-stop/TwinFile", "write %s is not in the file after both appenders were stopped (the other appender on the same path had been stopped%s before)", id, map[bool]string{true: " twice", false: ""}[s.StopTwice])
			return
		}
	}
	if n := x.FS.OpenCount(); n != 0 {
		o.violate("descriptor-leak", "C05/descriptor-open-after-stop/TwinFile", "%d descriptors open after both appenders were stopped", n)
	}
}

func (c c05) Run(x *Exec, scn any) {
	s := scn.(*AsyncScn)
	o := x.Out
	x.FS.MkdirAll("/logs")
	if s.Kind == "TwinFile" {
		c.runTwinFile(x, s)
		return
	}
	if s.Kind == "AsyncLogger" {
		c.runAsync(x, s)
		return
	}
	logRange, _ := modelRange(s.Level)
	var submit func(task, seq int, op AOp) *Sub
	var stop func()
	full := log.LevelRange{MinLevel: levelByCode(logRange.Min), MaxLevel: levelByCode(logRange.Max)}
	var layout log.Layout
	switch s.LLayout {
	case "TextLayout":
		layout = &log.TextLayout{BaseLayout: log.BaseLayout{FileLineLength: 48}}
	case "JSONLayout":
		layout = &log.JSONLayout{BaseLayout: log.BaseLayout{FileLineLength: 48}}
	}
	direct := func(l log.Logger) {
		submit = func(task, seq int, op AOp) *Sub {
			sb := &Sub{ID: fmt.Sprintf("t%ds%d", task, seq), Task: task, Seq: seq, Level: op.Lvl, Code: levelCodes[op.Lvl]}
			sb.Invoke, _ = stepTask()
			pv, st := call(func() {
				e := log.GetEvent()
				e.Level, e.Time, e.File, e.Line, e.Tag = levelByName(op.Lvl), evTime(evKey{task: task, seq: seq}), "direct.go", seq, "_app_def"
				e.Fields = []log.Field{log.String("id", sb.ID), log.String("pad", filler(task, seq, op.Size))}
				l.Append(e)
			})
			sb.Return, _ = stepTask()
			sb.Panic, sb.Returned = pv, pv == nil
			if pv != nil {
				sb.PanicAt = panicSite(st)
			}
			return sb
		}
		stop = l.Stop
	}
	var startErr error
	if s.Via == "direct" {
		base := log.LoggerBase{Name: "dlog", Level: full}
		switch s.Kind {
		case "File":
			if layout == nil {
				layout = &log.TextLayout{BaseLayout: log.BaseLayout{FileLineLength: 48}}
			}
			l := &log.FileLogger{LoggerBase: base, FileAppender: log.FileAppender{Layout: layout, FileDir: "/logs", FileName: "direct.log"}}
			startErr = l.Start()
			direct(l)
		case "Console":
			if layout == nil {
				layout = &log.TextLayout{BaseLayout: log.BaseLayout{FileLineLength: 48}}
			}
			l := &log.ConsoleLogger{LoggerBase: base, ConsoleAppender: log.ConsoleAppender{Layout: layout}}
			direct(l)
		case "RollingFile":
			base.Layout = layout
			l := &log.RollingFileLogger{LoggerBase: base, FileDir: "/logs", FileName: "app.log", Separate: s.Separate,
				Rotation: log.TimeRotation{Interval: time.Duration(s.RotMs) * time.Millisecond}, MaxAge: 168,
				AsyncWrite: s.RAsync, BufferSize: s.BufferSize, BufferFullPolicy: policyOf(s.Policy)}
			var pv any
			var st string
			x.do("start", func() { pv, st = call(func() { startErr = l.Start() }) })
			if pv != nil {
				o.violate("start-panic", "C05/start-panic/RollingFile/"+panicSite(st), "RollingFileLogger.Start panicked: %v", pv)
				return
			}
			direct(l)
		}
	} else {
		spec := &SysSpec{Style: s.Style, Props: map[string]string{"enableCaller": "false"}}
		lg := LogSpec{Name: "main", Type: s.Kind, Tags: []string{"_app_*"}, Level: s.Level, Layout: s.LLayout}
		switch s.Kind {
		case "Logger":
			fname := "f"
			if s.Knobs.MapSeed%2 == 1 {
				fname = "main" // appenders and loggers have name spaces of their own: the same name may occur in both
			}
			spec.Apps = []AppSpec{{Name: fname, Type: "File", FileDir: "/logs", FileName: "sync.log"}, {Name: "c", Type: "Console"}}
			lg.Refs = []RefSpec{{Ref: fname, Level: "TRACE~TOP"}, {Ref: "c", Level: "VERBOSE~CRIT"}}
			lg.Layout = ""
		case "File":
			spec.Apps = []AppSpec{{Name: "unused", Type: "Discard"}}
			lg.FileDir, lg.FileName = "/logs", "named.log"
		case "Console":
			spec.Apps = []AppSpec{{Name: "unused", Type: "Discard"}}
		case "RollingFile":
			spec.Apps = []AppSpec{{Name: "unused", Type: "Discard"}}
			lg.FileDir, lg.FileName, lg.Rotation, lg.MaxAge = "/logs", "app.log", map[int]string{3600000: "h", 2000: "2s"}[s.RotMs], 168
			lg.Separate, lg.Async = s.Separate, s.RAsync
			if s.RAsync {
				lg.BufferSize, lg.Policy = s.BufferSize, s.Policy
			}
		}
		spec.Logs = []LogSpec{lg}
		if s.Kind == "AsyncShared" {
			spec.Apps = []AppSpec{{Name: "shared", Type: "File", FileDir: "/logs", FileName: "shared.log"}}
			a := LogSpec{Name: "appl", Type: "AsyncLogger", Tags: []string{"_app_*"}, Level: s.Level, BufferSize: s.BufferSize, Policy: "Block", Refs: []RefSpec{{Ref: "shared"}}}
			b := a
			b.Name, b.Tags = "bizl", []string{"_biz_*"}
			spec.Logs = []LogSpec{a, b}
		}
		cfg := spec.Render()
		var pv any
		var st string
		x.do("refresh", func() { pv, st = call(func() { startErr = log.Refresh(cfg) }) })
		if pv != nil {
			o.violate("refresh-panic", "C05/refresh-panic/"+s.Kind+"/"+panicSite(st), "Refresh panicked for a %s logger: %v", s.Kind, pv)
			return
		}
		if s.Rejected && startErr == nil {
			// a second Refresh while this configuration is live is rejected - and changes nothing
			// about what Destroy owes the accepted events
			var err2 error
			x.do("second-refresh", func() { call(func() { err2 = log.Refresh(cfg) }) })
			if err2 == nil {
				o.violate("second-refresh-accepted", "C05/second-refresh-accepted", "a second Refresh without Destroy was accepted")
				return
			}
		}
		submit = func(task, seq int, op AOp) *Sub {
			sb := &Sub{ID: fmt.Sprintf("t%ds%d", task, seq), Task: task, Seq: seq, Level: op.Lvl, Code: levelCodes[op.Lvl]}
			sb.Invoke, _ = stepTask()
			tag := log.TagAppDef
			if s.Kind == "AsyncShared" && (task+seq)%2 == 1 {
				tag = log.TagBizDef
			}
			pv, st := call(func() {
				log.Record(ctxFor(task, seq), levelByName(op.Lvl), tag, 1, log.String("id", sb.ID), log.String("pad", filler(task, seq, op.Size)))
			})
			sb.Return, _ = stepTask()
			sb.Panic, sb.Returned = pv, pv == nil
			if pv != nil {
				sb.PanicAt = panicSite(st)
			}
			return sb
		}
		stop = log.Destroy
	}
	if startErr != nil {
		o.violate("start-error", "C05/start-error/"+s.Kind, "starting a valid %s logger failed: %v", s.Kind, startErr)
		return
	}
	if s.WriteFail && s.Kind != "Console" {
		// the disk is full for two writes: those two lines may be missing, the descriptors are
		// nevertheless all released at Stop and no others are opened behind the scenes
		x.FS.AddFault(&simos.FaultRule{Op: "write", Prefix: "/logs", Err: syscall.ENOSPC, Skip: int(s.Knobs.MapSeed % 3), Count: 2})
	}
	subs := make([][]*Sub, len(s.Producers))
	for p := range s.Producers {
		x.Sim.Spawn(fmt.Sprintf("producer%d", p), func() {
			for i, op := range s.Producers[p] {
				subs[p] = append(subs[p], submit(p, i, op))
			}
		})
	}
	clockEnvMs(x, s.Clock)
	// the phase ends the moment the last log call returns: what the library's own goroutines
	// have not done by then (a worker's backlog, a retention sweep) is still theirs to do at Stop
	res := x.Sim.Run(x.harnessTasksDone)
	if s.Kind == "RollingFile" && s.RotMs == 2000 {
		// at least two more rotations of every file appender before Stop: a descriptor that is
		// only released "one rotation later" must really be released then
		for round := 0; round < 3; round++ {
			if round == 0 && s.SyncFail {
				x.FS.AddFault(&simos.FaultRule{Op: "sync", Prefix: "/logs", Err: syscall.EINVAL, Count: -1})
			}
			if round == 1 && s.Knobs.MapSeed%2 == 1 {
				// one file creation fails at this boundary (descriptor table full): the logger
				// must keep its current file, and Stop must still close everything it ever opened
				x.FS.AddFault(&simos.FaultRule{Op: "open", Prefix: "/logs", Err: syscall.EMFILE, Count: 1})
				x.Sim.Probe("rotation_failure_before_stop")
			}
			x.Sim.Advance(2100 * time.Millisecond)
			x.Sim.Spawn(fmt.Sprintf("producer-late%d", round), func() {
				subs[0] = append(subs[0], submit(0, 1000+2*round, AOp{Lvl: "INFO", Size: 3}))
				subs[0] = append(subs[0], submit(0, 1001+2*round, AOp{Lvl: "ERROR", Size: 3}))
			})
			res = x.Sim.Run(nil)
			x.Sim.Probe("rotation_before_stop")
		}
	}
	stuckProducers := false
	for _, t := range x.Sim.Tasks() {
		if strings.HasPrefix(t.Name, "producer") && t.State != 5 {
			stuckProducers = true
			o.violate("log-call-blocked", "C05/log-call-blocked/"+s.Kind+kindSuffix(s), "log call of %s never returned (blocked at %s): %v", t.Name, t.Site, res.Blocked)
		}
	}
	if res.StepCap {
		o.violate("log-call-livelock", "C05/log-call-livelock/"+s.Kind+kindSuffix(s), "log calls spin without returning (step cap)")
		stuckProducers = true
	}
	if stuckProducers {
		return
	}
	if n := x.FS.OpenCount(); s.Kind == "RollingFile" && n > 2*(1+b2i(s.Separate)) {
		o.violate("too-many-descriptors", "C05/rolling-too-many-descriptors", "%d descriptors open while no write is in progress", n)
	}
	if s.SyncFail {
		// flushing to stable storage fails from now on (a pipe, a full or failing disk): Stop
		// still has to release every descriptor, and what was written stays written
		x.FS.AddFault(&simos.FaultRule{Op: "sync", Prefix: "/logs", Err: syscall.EINVAL, Count: -1})
	}
	var present map[string]bool
	var openAtStop int
	stopReturned := false
	x.Sim.Spawn("stopper", func() {
		stop()
		// the very step Stop returns: what is readable now?
		present = idsInSinks(x)
		openAtStop = x.FS.OpenCount()
		stopReturned = true
		if s.StopTwice && (s.Via == "refresh" || s.Kind == "File" || s.Kind == "Console") {
			// Destroy is idempotent; file and console appenders tolerate a second Stop
			stop()
		}
	})
	res = x.Sim.Run(nil)
	judgeDied(x, "C05")
	x.Sim.Close()
	o.Reached = x.Sim.Preemptions() > 0 || s.RAsync
	x.Sim.NoteState(fmt.Sprintf("%s/%s async=%v sep=%v layout=%s", s.Kind, s.Via, s.RAsync, s.Separate, s.LLayout))
	if !stopReturned {
		if len(o.Violations) == 0 {
			o.violate("stop-does-not-return", "C05/stop-does-not-return/"+s.Kind+kindSuffix(s), "Stop/Destroy of a %s logger did not return with no log call in progress: %v (step cap %v)", s.Kind, res.Blocked, res.StepCap)
		}
		return
	}
	refused := map[string]bool{} // ids in lines the simulated OS refused to write
	for buf := range x.FS.FailedWriteSet() {
		for _, m := range idInLine.FindAllStringSubmatch(buf, -1) {
			refused[m[1]] = true
		}
	}
	missing := 0
	first := ""
	for _, ps := range subs {
		for _, sb := range ps {
			if refused[sb.ID] {
				continue
			}
			if sb.Panic != nil {
				o.violate("log-call-panic", "C05/log-call-panic/"+s.Kind+kindSuffix(s)+"/"+sb.PanicAt, "log call %s panicked: %v", sb.ID, sb.Panic)
				continue
			}
			if sb.Returned && logRange.has(sb.Code) && !present[sb.ID] {
				missing++
				if first == "" {
					first = sb.ID
				}
			}
		}
	}
	if missing > 0 {
		o.violate("not-flushed", "C05/accepted-item-not-in-sink-at-stop/"+s.Kind+kindSuffix(s), "%d accepted events (first %s) were not readable from the target when Stop returned", missing, first)
	}
	if openAtStop != 0 {
		o.violate("descriptor-leak", "C05/descriptor-open-after-stop/"+s.Kind+kindSuffix(s), "%d descriptors still open when Stop returned: %v", openAtStop, x.FS.Handles())
	}
}

func kindSuffix(s *AsyncScn) string {
	if s.Kind != "RollingFile" {
		return ""
	}
	suf := "/sync"
	if s.RAsync {
		suf = "/async-" + s.Policy
	}
	if s.LLayout == "" {
		suf += "/no-logger-layout"
	}
	return suf
}

func b2i(b bool) int {
	if b {
		return 1
	}
	return 0
}

// idsInSinks collects the ids of all events readable from files under /logs and the console stream.
func idsInSinks(x *Exec) map[string]bool {
	out := map[string]bool{}
	scan := func(b []byte) {
		for _, m := range idInLine.FindAllSubmatch(b, -1) {
			out[string(m[1])] = true
		}
	}
	for p, data := range x.FS.AllFiles() {
		if strings.HasPrefix(p, "/logs/") {
			scan(data)
		}
	}
	for _, w := range x.FS.StdoutWrites() {
		scan(w.Data)
	}
	return out
}

func (c05) runAsync(x *Exec, s *AsyncScn) {
	o := x.Out
	sys := buildAsync(x, s)
	if sys.err != nil {
		o.violate("start-error", "C05/start-error/AsyncLogger", "valid async logger rejected: %v", sys.err)
		return
	}
	rec := sys.recs[0]
	// phase 1: drive the buffer to the chosen occupancy; gates stay shut
	var pre []*Sub
	if s.Prefill > 0 {
		x.Sim.Spawn("producer-prefill", func() {
			for i := 0; i < s.Prefill; i++ {
				pre = append(pre, sys.submit(99, i, AOp{Lvl: "ERROR", Raw: s.HandleOnly, Size: 2}, nil))
			}
		})
	}
	subs := make([][]*Sub, len(s.Producers))
	sys.spawnProducers(x, subs)
	// Block producers may legitimately wait for space: let the worker through while producers run
	sys.gateEnvs(x, true)
	res := x.Sim.Run(x.harnessTasksDone)
	if res.StepCap {
		o.violate("log-call-livelock", "C05/log-call-livelock/AsyncLogger", "producers spin (step cap)")
		return
	}
	for _, t := range x.Sim.Tasks() {
		if strings.HasPrefix(t.Name, "producer") && t.State != 5 {
			o.violate("log-call-blocked", "C05/log-call-blocked/AsyncLogger/"+s.Policy, "producer %s still blocked at %s although the worker was let through", t.Name, t.Site)
			return
		}
	}
	// state at the moment of Stop
	inHand := rec.InFlightCount()
	deliveredBefore := len(rec.snapshot())
	accepted := 0
	all := append([]*Sub(nil), pre...)
	for _, ps := range subs {
		all = append(all, ps...)
	}
	for _, sb := range all {
		if sys.accepted(sb) {
			accepted++
		}
	}
	counterBefore := sys.counter()
	buffered := accepted - int(counterBefore) - deliveredBefore
	worker := "idle"
	if inHand > 0 {
		worker = "mid-append"
		if rec.CanOpen() {
			worker = "held-at-gate"
		}
	}
	occ := "0"
	switch {
	case buffered >= s.BufferSize:
		occ = "cap"
	case buffered == s.BufferSize-1:
		occ = "cap-1"
	case buffered > 1:
		occ = "mid"
	case buffered == 1:
		occ = "1"
	}
	x.Sim.NoteState("stop@occ=" + occ + "/worker=" + worker + "/" + s.Policy)
	x.Sim.Probe("stop_at_occ_" + occ + "_" + worker)
	var deliveredAtStop []Item
	stopReturned := false
	x.Sim.Spawn("stopper", func() {
		sys.stop()
		deliveredAtStop = rec.snapshot()
		stopReturned = true
	})
	// the scheduler opens the gate at steps of its choosing; when nothing else can run it must
	res = sys.drain(x)
	judgeDied(x, "C05")
	counter := sys.counter()
	x.Sim.Close()
	o.Reached = (buffered > 0 || inHand > 0) && x.Sim.Preemptions() > 0
	if !stopReturned {
		o.violate("stop-does-not-return", "C05/stop-does-not-return/AsyncLogger/"+s.Policy, "Stop did not return although every gate was opened and no log call was in progress: %v", res.Blocked)
		return
	}
	if counter != counterBefore {
		o.violate("discard-during-stop", "C05/stop-discarded-items/"+s.Policy, "the discard counter moved from %d to %d during Stop", counterBefore, counter)
	}
	if len(deliveredAtStop) != accepted-int(counter) {
		o.violate("not-flushed", "C05/accepted-item-not-delivered-at-stop/AsyncLogger/"+s.Policy,
			"when Stop returned the appender had received %d items; %d were accepted and %d discarded by policy (occupancy at Stop: %s, worker %s)", len(deliveredAtStop), accepted, counter, occ, worker)
	}
	for _, it := range deliveredAtStop {
		done := 0
		if it.Ev != nil {
			done = it.Ev.Done
		} else {
			done = it.Wr.Done
		}
		if done == 0 {
			id, _ := itemID(it)
			o.violate("stop-before-append-finished", "C05/stop-returned-while-append-in-progress", "Stop returned while the appender was still processing %s", id)
			break
		}
	}
	if x.FS.OpenCount() != 0 {
		o.violate("descriptor-leak", "C05/descriptor-open-after-stop/AsyncLogger", "%d descriptors open after Stop", x.FS.OpenCount())
	}
	_ = verifsim.StDone
}
