package harness

import (
	"encoding/json"
	"hash/fnv"
	"flag"
	"fmt"
	"os"
	"path/filepath"
	"sort"
	"strconv"
	"strings"
	"testing"
	"time"

	"pgregory.net/rapid"
)

var (
	fProp     = flag.String("prop", "", "property id")
	fSeed     = flag.Uint64("seed", 1, "worker seed")
	fThorough = flag.Bool("thorough", false, "thorough tier")
	fBudget   = flag.Float64("budget", 10, "wall-clock budget in seconds")
	fMaxCases = flag.Int("maxcases", 0, "stop after this many cases (0 = budget only)")
	fOut      = flag.String("out", "", "result JSON path")
	fReplay   = flag.String("replay", "", "replay file to execute instead of searching")
	fKnown    = flag.String("known", "", "known_findings.json")
	fReplays  = flag.String("replaydir", "", "directory for replay files")
	fSrcHash  = flag.String("srchash", "", "hash of the instrumented sources (recorded in replay files)")
	fRecheck  = flag.Int("recheck", 50, "re-execute every n-th case and compare trace hashes (determinism guard)")
	fGrid     = flag.Bool("grid", false, "run the property's enumerated grid (exhaustive, no random search)")
)

type knownFinding struct {
	Property  string `json:"property"`
	Signature string `json:"signature"`
	Status    string `json:"status"` // known | fixed
	What      string `json:"what"`
	Commit    string `json:"commit,omitempty"`
}

type ReplayFile struct {
	Property  string          `json:"property"`
	Seed      uint64          `json:"seed"`
	Thorough  bool            `json:"thorough"`
	Scenario  json.RawMessage `json:"scenario"`
	Tape      []int           `json:"tape"`
	Violation Violation       `json:"violation"`
	TraceHash string          `json:"trace_hash"`
	SrcHash   string          `json:"source_hash"`
	Steps     int             `json:"steps"`
	Trace     any             `json:"trace"`
	Outcome   *Outcome        `json:"outcome"`
}

type WorkerResult struct {
	Property    string            `json:"property"`
	Seed        uint64            `json:"seed"`
	Cases       int               `json:"cases"`
	NonTrivial  int               `json:"nontrivial_cases"`
	Hashes      []string          `json:"nontrivial_hashes"`
	StateHashes []string          `json:"state_hashes"`
	Violations  []ReplayRef       `json:"violations"`
	KnownHits   map[string]int    `json:"known_hits"`
	Probes      map[string]int64  `json:"probes"`
	Faults      map[string]int    `json:"faults_fired"`
	Steps       int64             `json:"steps"`
	Switches    int64             `json:"switches"`
	Preempts    int64             `json:"preemptions"`
	EnvActs     int64             `json:"env_actions"`
	SimMs       int64             `json:"sim_ms"`
	Leaked      int64             `json:"leaked_tasks"`
	Rechecked   int               `json:"rechecked"`
	Samples     []json.RawMessage `json:"samples"`
	WallS       float64           `json:"wall_s"`
	HarnessErr  string            `json:"harness_error,omitempty"`
	Rule        string            `json:"rule"`
	Level       string            `json:"level"`
}

type ReplayRef struct {
	Signature string `json:"signature"`
	Clause    string `json:"clause"`
	Detail    string `json:"detail"`
	Replay    string `json:"replay"`
}

// knobbed is implemented by every scenario type.
type knobbed interface{ knobs() SimKnobs }


// captureTB lets rapid report a failure without failing the Go test.
type captureTB struct {
	failed bool
	msgs   []string
}

func (c *captureTB) Helper()                           {}
func (c *captureTB) Name() string                      { return "worker" }
func (c *captureTB) Logf(f string, a ...any)           {}
func (c *captureTB) Log(a ...any)                      {}
func (c *captureTB) Skipf(f string, a ...any)          {}
func (c *captureTB) Skip(a ...any)                     {}
func (c *captureTB) SkipNow()                          {}
func (c *captureTB) Errorf(f string, a ...any)         { c.failed = true; c.msgs = append(c.msgs, fmt.Sprintf(f, a...)) }
func (c *captureTB) Error(a ...any)                    { c.failed = true; c.msgs = append(c.msgs, fmt.Sprint(a...)) }
func (c *captureTB) Fatalf(f string, a ...any)         { c.Errorf(f, a...) }
func (c *captureTB) Fatal(a ...any)                    { c.Error(a...) }
func (c *captureTB) FailNow()                          { c.failed = true }
func (c *captureTB) Fail()                             { c.failed = true }
func (c *captureTB) Failed() bool                      { return c.failed }

func loadKnown(path, prop string) map[string]knownFinding {
	out := map[string]knownFinding{}
	if path == "" {
		return out
	}
	b, err := os.ReadFile(path)
	if err != nil {
		return out
	}
	var all []knownFinding
	if err := json.Unmarshal(b, &all); err != nil {
		panic("known findings file unreadable: " + err.Error())
	}
	for _, k := range all {
		if k.Property == prop && k.Status == "known" {
			out[k.Signature] = k
		}
	}
	return out
}

func writeJSON(path string, v any) {
	b, err := json.MarshalIndent(v, "", " ")
	if err != nil {
		panic(err)
	}
	if err := os.WriteFile(path, b, 0o644); err != nil {
		panic(err)
	}
}

func TestWorker(t *testing.T) {
	if *fProp == "" {
		t.Skip("no -prop")
	}
	p := registry[*fProp]
	if p == nil {
		fmt.Printf("HARNESS-ERROR unknown property %s\n", *fProp)
		os.Exit(2)
	}
	defer func() {
		if r := recover(); r != nil {
			msg := fmt.Sprint(r)
			if hp, ok := r.(harnessPanic); ok {
				msg = fmt.Sprintf("%v\n%s", hp.val, hp.stack)
			}
			if firstHarnessPanic != "" {
				msg = "first machinery panic: " + firstHarnessPanic + "\n--- reported as: " + msg
			}
			fmt.Printf("HARNESS-ERROR %s\n", msg)
			if *fOut != "" {
				writeJSON(*fOut, WorkerResult{Property: *fProp, Seed: *fSeed, HarnessErr: msg})
			}
			os.Exit(2)
		}
	}()
	if *fReplay != "" {
		replay(t, p)
		return
	}
	if *fGrid {
		grid(t, p)
		return
	}
	search(t, p)
}

func replay(t *testing.T, p Property) {
	b, err := os.ReadFile(*fReplay)
	if err != nil {
		panic(err)
	}
	var rf ReplayFile
	if err := json.Unmarshal(b, &rf); err != nil {
		panic(err)
	}
	scn, err := p.Decode(rf.Scenario)
	if err != nil {
		panic(err)
	}
	out := RunCase(t, p, scn, scn.(knobbed).knobs(), rf.Tape, true)
	same := false
	for _, v := range out.Violations {
		if v.Signature == rf.Violation.Signature {
			same = true
			fmt.Printf("REPLAY reproduced signature=%s\n  %s\n", v.Signature, short(v.Detail, 2000))
		}
	}
	th := strconv.FormatUint(out.TraceHash, 16)
	fmt.Printf("REPLAY trace_hash=%s recorded=%s steps=%d\n", th, rf.TraceHash, out.Steps)
	switch {
	case same && th == rf.TraceHash:
		fmt.Printf("REPLAY-RESULT exact\n")
	case same:
		fmt.Printf("REPLAY-RESULT same-violation-different-trace (sources changed since the file was written?)\n")
	default:
		fmt.Printf("REPLAY-RESULT not-reproduced violations_now=%d\n", len(out.Violations))
		for _, v := range out.Violations {
			fmt.Printf("  now: %s\n", v.Signature)
		}
	}
}

func search(t *testing.T, p Property) {
	start := time.Now()
	known := loadKnown(*fKnown, p.ID())
	res := WorkerResult{Property: p.ID(), Seed: *fSeed, KnownHits: map[string]int{}, Probes: map[string]int64{}, Faults: map[string]int{}, Rule: p.Rule(), Level: p.Level()}
	hashes := map[uint64]struct{}{}
	states := map[uint64]struct{}{}
	deadline := start.Add(time.Duration(*fBudget * float64(time.Second)))
	flag.Set("rapid.nofailfile", "true")
	flag.Set("rapid.shrinktime", "12s")
	maxTape := 400
	if *fThorough {
		maxTape = 1500
	}

	type failure struct {
		scn  any
		tape []int
		v    Violation
	}
	reported := map[string]bool{}
	batch := uint64(0)
	for time.Now().Before(deadline) && (*fMaxCases == 0 || res.Cases < *fMaxCases) && len(res.Violations) < 3 {
		batch++
		seed := splitmix(*fSeed*1000003 + batch)
		if seed == 0 {
			seed = 1
		}
		flag.Set("rapid.seed", strconv.FormatUint(seed, 10))
		flag.Set("rapid.checks", "60")
		var last *failure
		target := ""
		tb := &captureTB{}
		rapid.Check(tb, func(rt *rapid.T) {
			if last == nil && !time.Now().Before(deadline) {
				return // budget exhausted: let the batch drain quickly
			}
			scn := p.Gen(rt, *fThorough)
			tape := genTape(rt, maxTape, scn.(knobbed).knobs().Dense)
			out := RunCase(t, p, scn, scn.(knobbed).knobs(), tape, false)
			if target == "" { // statistics only for the search phase, not for shrinking
				res.Cases++
				res.Steps += int64(out.Steps)
				res.Switches += int64(out.Switches)
				res.Preempts += int64(out.Preempts)
				res.EnvActs += int64(out.EnvActs)
				res.SimMs += out.SimTimeMs
				res.Leaked += int64(out.Leaked)
				for k, v := range out.Probes {
					res.Probes[k] += v
				}
				for k, v := range out.Faults {
					res.Faults[k] += v
				}
				for k := range out.States {
					states[k] = struct{}{}
				}
				if out.Reached {
					res.NonTrivial++
					h := out.SwHash
					if out.ScnDistinct {
						if b, err := json.Marshal(scn); err == nil {
							f := fnv.New64a()
							f.Write(b)
							h ^= f.Sum64()
						}
					}
					hashes[h] = struct{}{}
				}
				if len(res.Samples) < 3 && out.Reached {
					if b, err := json.Marshal(map[string]any{"scenario": scn, "tape_len": len(tape), "steps": out.Steps, "preemptions": out.Preempts, "switches": out.Switches}); err == nil {
						res.Samples = append(res.Samples, b)
					}
				}
				if *fRecheck > 0 && res.Cases%*fRecheck == 0 {
					again := RunCase(t, p, scn, scn.(knobbed).knobs(), tape, false)
					res.Rechecked++
					if again.TraceHash != out.TraceHash || len(again.Violations) != len(out.Violations) {
						panic(fmt.Sprintf("determinism guard: same case, different execution (trace %x vs %x, violations %d vs %d)", out.TraceHash, again.TraceHash, len(out.Violations), len(again.Violations)))
					}
				}
			}
			for _, v := range out.Violations {
				if _, ok := known[v.Signature]; ok {
					if target == "" {
						res.KnownHits[v.Signature]++
					}
					continue
				}
				if reported[v.Signature] {
					continue
				}
				if target == "" {
					target = v.Signature
				}
				if v.Signature != target {
					continue
				}
				last = &failure{scn: scn, tape: tape, v: v}
				rt.Fatalf("%s", v.Signature)
			}
		})
		if last != nil {
			reported[last.v.Signature] = true
			// final, minimised case: run once more with the full trace and write the replay file
			out := RunCase(t, p, last.scn, last.scn.(knobbed).knobs(), last.tape, true)
			v := last.v
			for _, ov := range out.Violations {
				if ov.Signature == last.v.Signature {
					v = ov
				}
			}
			tape := last.tape
			if out.TapeUsed < len(tape) {
				tape = tape[:out.TapeUsed]
			}
			for len(tape) > 0 && tape[len(tape)-1] == 0 {
				tape = tape[:len(tape)-1]
			}
			raw, _ := json.Marshal(last.scn)
			rf := ReplayFile{Property: p.ID(), Seed: *fSeed, Thorough: *fThorough, Scenario: raw, Tape: tape, Violation: v,
				TraceHash: strconv.FormatUint(out.TraceHash, 16), SrcHash: *fSrcHash, Steps: out.Steps, Trace: out.Trace, Outcome: out}
			name := fmt.Sprintf("%s-%s-%d.json", p.ID(), sanitize(v.Signature), *fSeed)
			path := filepath.Join(*fReplays, name)
			os.MkdirAll(*fReplays, 0o755)
			writeJSON(path, rf)
			res.Violations = append(res.Violations, ReplayRef{Signature: v.Signature, Clause: v.Clause, Detail: short(v.Detail, 1500), Replay: path})
		} else if tb.failed {
			panic("rapid reported a failure the harness did not raise: " + strings.Join(tb.msgs, " | "))
		}
	}
	for h := range hashes {
		res.Hashes = append(res.Hashes, strconv.FormatUint(h, 16))
	}
	sort.Strings(res.Hashes)
	for h := range states {
		res.StateHashes = append(res.StateHashes, strconv.FormatUint(h, 16))
	}
	sort.Strings(res.StateHashes)
	res.WallS = time.Since(start).Seconds()
	if *fOut != "" {
		writeJSON(*fOut, res)
	} else {
		b, _ := json.MarshalIndent(res, "", " ")
		fmt.Println(string(b))
	}
}

func sanitize(s string) string {
	var b strings.Builder
	for _, c := range s {
		switch {
		case c >= 'a' && c <= 'z', c >= 'A' && c <= 'Z', c >= '0' && c <= '9', c == '-', c == '_':
			b.WriteRune(c)
		default:
			b.WriteByte('_')
		}
	}
	r := b.String()
	if len(r) > 80 {
		r = r[:80]
	}
	return r
}

func splitmix(x uint64) uint64 {
	x += 0x9E3779B97F4A7C15
	z := x
	z = (z ^ (z >> 30)) * 0xBF58476D1CE4E5B9
	z = (z ^ (z >> 27)) * 0x94D049BB133111EB
	return z ^ (z >> 31)
}

// gridder is implemented by properties that also enumerate a finite grid exhaustively.
type gridder interface{ Grid() []any }

func grid(t *testing.T, p Property) {
	start := time.Now()
	g, ok := p.(gridder)
	res := WorkerResult{Property: p.ID(), Seed: *fSeed, KnownHits: map[string]int{}, Probes: map[string]int64{}, Faults: map[string]int{}, Rule: p.Rule(), Level: p.Level()}
	if ok {
		known := loadKnown(*fKnown, p.ID())
		hashes := map[uint64]struct{}{}
		reported := map[string]bool{}
		for i, scn := range g.Grid() {
			out := RunCase(t, p, scn, scn.(knobbed).knobs(), nil, false)
			res.Cases++
			res.Steps += int64(out.Steps)
			res.EnvActs += int64(out.EnvActs)
			res.SimMs += out.SimTimeMs
			for k, v := range out.Probes {
				res.Probes[k] += v
			}
			for k, v := range out.Faults {
				res.Faults[k] += v
			}
			if out.Reached {
				res.NonTrivial++
				b, _ := json.Marshal(scn)
				f := fnv.New64a()
				f.Write(b)
				hashes[f.Sum64()] = struct{}{}
			}
			if len(res.Samples) < 2 && out.Reached {
				b, _ := json.Marshal(map[string]any{"grid_index": i, "scenario": scn})
				res.Samples = append(res.Samples, b)
			}
			for _, v := range out.Violations {
				if _, ok := known[v.Signature]; ok {
					res.KnownHits[v.Signature]++
					continue
				}
				if reported[v.Signature] {
					continue
				}
				reported[v.Signature] = true
				full := RunCase(t, p, scn, scn.(knobbed).knobs(), nil, true)
				raw, _ := json.Marshal(scn)
				rf := ReplayFile{Property: p.ID(), Seed: *fSeed, Scenario: raw, Violation: v, TraceHash: strconv.FormatUint(full.TraceHash, 16), SrcHash: *fSrcHash, Steps: full.Steps, Trace: full.Trace, Outcome: full}
				path := filepath.Join(*fReplays, fmt.Sprintf("%s-grid-%s-%d.json", p.ID(), sanitize(v.Signature), i))
				os.MkdirAll(*fReplays, 0o755)
				writeJSON(path, rf)
				res.Violations = append(res.Violations, ReplayRef{Signature: v.Signature, Clause: v.Clause, Detail: short(v.Detail, 1500), Replay: path})
			}
		}
		for h := range hashes {
			res.Hashes = append(res.Hashes, "grid"+strconv.FormatUint(h, 16))
		}
	}
	res.WallS = time.Since(start).Seconds()
	writeJSON(*fOut, res)
}
