package harness

import (
	"encoding/json"
	"fmt"
	"sort"
	"strings"

	log "github.com/go-spring/log"
	"pgregory.net/rapid"
)

// C02 — each tag is served by the most specific configured logger, else root.

type C02Scn struct {
	Knobs SimKnobs   `json:"knobs"`
	Style Style      `json:"style"`
	Tags  []string   `json:"tags"`  // registered tags (besides the two built-in ones)
	Lists [][]string `json:"lists"` // tag list entries of each non-root logger
	Root  int        `json:"root"`  // 0 no root configured, 1 root, 2 root that (illegally) lists tags
	Sep   string     `json:"sep"`   // separator spelling between entries
	Again bool       `json:"second_refresh,omitempty"` // after the judged Refresh succeeded it is called once more (and rejected): the bindings stay
	Handles bool     `json:"handles,omitempty"`        // named handles are requested for the configured loggers before Refresh
	Prior bool       `json:"prior_failed_refresh,omitempty"` // a Refresh that fails late (after its root logger was built) precedes the judged one
}

func (s *C02Scn) knobs() SimKnobs { return s.Knobs }

type c02 struct{}

func init() { register(c02{}) }

func (c02) ID() string    { return "C02" }
func (c02) Level() string { return "exploration" }
func (c02) Rule() string {
	return "case = a set of registered tags (1-4 segments over a small vocabulary so that prefixes are shared, with/without leading underscore, plus the two built-in tags) x tag lists (literal tags, wildcards P_* for proper prefixes at several depths, occasionally an ill-formed wildcard, an empty list or the same entry in two loggers) on up to 4 loggers plus an optional root (sometimes illegally listing tags; one case in six with 8-20 tags and up to 36 entries, kept valid), rendered in a random key spelling with the lists written directly or through ${property}; a quarter of the cases are preceded by a Refresh that fails after its root logger was built; Go's map iteration order at all nine range-over-map sites of Refresh is replaced by a seeded permutation. Oracle: reference longest-prefix matcher and the four error rules; observed by logging one event through every registered tag and looking at which logger's recording appender (or the built-in console) received it. Non-trivial = at least one tag resolved through a wildcard or a Refresh error was expected; distinct = distinct hashes of (tags, lists, root, map permutation seed)."
}
func (c02) Decode(raw json.RawMessage) (any, error) {
	var s C02Scn
	err := json.Unmarshal(raw, &s)
	return &s, err
}

// some segments are string prefixes of others: a wildcard P_* must match on whole segments only
var tagVocab = []string{"app", "appx", "biz", "rpc", "db1", "db12", "x", "orderprocessing", "settlement9"}

func genTagName(rt *rapid.T) string {
	n := rapid.IntRange(1, 4).Draw(rt, "segs")
	var parts []string
	for i := 0; i < n; i++ {
		parts = append(parts, rapid.SampledFrom(tagVocab).Draw(rt, "seg"))
	}
	t := strings.Join(parts, "_")
	if len(t) < 3 {
		t = "app_" + t // a registered tag has at least three characters
	}
	for len(t) > 35 { // ... and at most 36 (35 here: a leading underscore may follow)
		t = t[:strings.LastIndex(t, "_")]
	}
	if rapid.Bool().Draw(rt, "lead") {
		t = "_" + t
	}
	return t
}

func (c02) Gen(rt *rapid.T, thorough bool) any {
	s := &C02Scn{Knobs: genKnobs(rt), Style: genStyle(rt)}
	s.Knobs.MapSeed = rapid.Uint64Range(0, 1<<20).Draw(rt, "map_seed2")
	seen := map[string]bool{}
	big := rapid.IntRange(0, 5).Draw(rt, "many_entries") == 0 // more list entries than small-input shortcuts of library routines cover
	nt := rapid.IntRange(1, 8).Draw(rt, "ntags")
	if big {
		nt = rapid.IntRange(8, 20).Draw(rt, "ntags_big")
	}
	for i := 0; i < nt; i++ {
		t := genTagName(rt)
		if !seen[t] {
			seen[t] = true
			s.Tags = append(s.Tags, t)
		}
	}
	all := append([]string{"_app_def", "_biz_def"}, s.Tags...)
	nl := rapid.IntRange(0, 4).Draw(rt, "nloggers")
	owned := map[string]int{}
	if big {
		nl = rapid.IntRange(3, 4).Draw(rt, "nloggers_big")
	}
	for i := 0; i < nl; i++ {
		var list []string
		ne := rapid.IntRange(1, 3).Draw(rt, "nentries")
		if big {
			ne = rapid.IntRange(3, 9).Draw(rt, "nentries_big")
		}
		if rapid.IntRange(0, 29).Draw(rt, "empty_list") == 0 {
			ne = 0
		}
		for j := 0; j < ne; j++ {
			base := rapid.SampledFrom(all).Draw(rt, "base")
			kind := rapid.IntRange(0, 9).Draw(rt, "entry_kind")
			if big && kind == 4 {
				kind = 5 // large configurations are kept valid: their point is the resolution itself
			}
			switch kind {
			case 0, 1, 2:
				list = append(list, base) // literal
			case 3:
				list = append(list, genTagName(rt)) // literal, maybe unregistered
			case 4:
				list = append(list, rapid.SampledFrom([]string{"ab*", "*", "app*", "app_*x", "_*x"}).Draw(rt, "badwild"))
			default: // wildcard on a proper prefix of base
				segs := strings.Split(strings.TrimPrefix(base, "_"), "_")
				if len(segs) < 2 {
					list = append(list, base)
					continue
				}
				k := rapid.IntRange(1, len(segs)-1).Draw(rt, "depth")
				p := strings.Join(segs[:k], "_")
				if strings.HasPrefix(base, "_") {
					p = "_" + p
				}
				list = append(list, p+"_*")
			}
		}
		if big {
			// an entry another logger already lists would only make the configuration invalid
			var keep []string
			for _, e := range list {
				if o, ok := owned[e]; !ok || o == i {
					owned[e] = i
					keep = append(keep, e)
				}
			}
			if len(keep) == 0 {
				keep = []string{fmt.Sprintf("own%d_*", i)}
			}
			list = keep
		}
		s.Lists = append(s.Lists, list)
	}
	s.Root = rapid.SampledFrom([]int{0, 1, 1, 1, 2}).Draw(rt, "root")
	if rapid.IntRange(0, 19).Draw(rt, "root_tags") != 0 && s.Root == 2 {
		s.Root = 1
	}
	s.Sep = rapid.SampledFrom([]string{",", ", ", " , ", ",,", ",\n\t", " ,\t"}).Draw(rt, "sep")
	s.Prior = rapid.IntRange(0, 3).Draw(rt, "prior_failed") == 0
	s.Again = rapid.IntRange(0, 3).Draw(rt, "again") == 0
	s.Handles = rapid.IntRange(0, 2).Draw(rt, "handles") == 0
	return s
}

func (c02) Run(x *Exec, scn any) {
	s := scn.(*C02Scn)
	o := x.Out
	spec := &SysSpec{Style: s.Style, Props: map[string]string{"enableCaller": "false"}}
	spec.Apps = append(spec.Apps, AppSpec{Name: "unused", Type: "Discard"})
	for i, list := range s.Lists {
		name := fmt.Sprintf("r%d", i)
		spec.Apps = append(spec.Apps, AppSpec{Name: name, Type: "Rec"})
		lg := LogSpec{Name: fmt.Sprintf("lg%d", i), Type: "Logger", Refs: []RefSpec{{Ref: name}}}
		if (s.Knobs.MapSeed>>uint(i))%5 == 3 {
			// an application-defined logger type: no name attribute, GetName() is not its configuration key
			lg = LogSpec{Name: fmt.Sprintf("lg%d", i), Type: "RecLogger", RecName: name}
		}
		if len(list) > 0 {
			lg.Tags = []string{strings.Join(list, s.Sep)}
		}
		spec.Logs = append(spec.Logs, lg)
	}
	if s.Root > 0 {
		spec.Apps = append(spec.Apps, AppSpec{Name: "rroot", Type: "Rec"})
		lg := LogSpec{Name: "root", Type: "Logger", Refs: []RefSpec{{Ref: "rroot"}}}
		if s.Root == 2 {
			lg.Tags = []string{"_app_*"}
		}
		spec.Logs = append(spec.Logs, lg)
	}
	allNames := append([]string{"_app_def", "_biz_def"}, s.Tags...)
	tags := map[string]*log.Tag{}
	for _, n := range allNames {
		tags[n] = log.RegisterTag(n)
	}
	if s.Knobs.MapSeed%3 == 1 {
		// registering a name again yields the same tag: the handle obtained first is the one the
		// application keeps using
		for _, n := range allNames {
			log.RegisterTag(n)
		}
	}
	// model: expected error?
	wantErr := ""
	owner := map[string]int{}
	for i, list := range s.Lists {
		if len(list) == 0 {
			wantErr = "non-root logger without tags"
		}
		for _, e := range list {
			if strings.Contains(e, "*") && !strings.HasSuffix(e, "_*") {
				wantErr = "ill-formed wildcard " + e
			}
			if j, ok := owner[e]; ok && j != i {
				wantErr = "tag " + e + " listed by two loggers"
			}
			owner[e] = i
		}
	}
	if s.Root == 2 {
		wantErr = "root logger lists tags"
	}
	if s.Handles {
		// a named handle for a logger changes nothing about the rules for its tag list
		for i := range s.Lists {
			log.GetLogger(fmt.Sprintf("lg%d", i))
		}
	}
	cfg := spec.Render()
	var err error
	var pv any
	var st string
	if s.Prior {
		// a rejected configuration leaves nothing behind: its root logger was already built when
		// the tag list of a later logger turned out to be ill-formed
		bad := &SysSpec{Style: s.Style, Props: map[string]string{"enableCaller": "false"},
			Apps: []AppSpec{{Name: "rstale", Type: "Rec"}},
			Logs: []LogSpec{{Name: "root", Type: "Logger", Refs: []RefSpec{{Ref: "rstale"}}}, {Name: "zz", Type: "Logger", Tags: []string{"zz*"}, Refs: []RefSpec{{Ref: "rstale"}}}}}
		badCfg := bad.Render()
		var perr error
		x.do("prior-refresh", func() { pv, st = call(func() { perr = log.Refresh(badCfg) }) })
		if pv != nil {
			o.violate("refresh-panic", "C02/refresh-panic/"+panicSite(st), "Refresh of an invalid configuration panicked: %v", pv)
			return
		}
		if perr == nil {
			o.violate("error-expected", "C02/refresh-accepted-invalid-tags/ill-formed", "Refresh accepted the wildcard zz*")
			x.do("destroy", func() { call(log.Destroy) })
			return
		}
	}
	x.do("refresh", func() { pv, st = call(func() { err = log.Refresh(cfg) }) })
	if pv != nil {
		o.violate("refresh-panic", "C02/refresh-panic/"+panicSite(st), "Refresh panicked: %v\n%v", pv, cfg)
		return
	}
	x.Sim.NoteState(fmt.Sprintf("loggers=%d root=%d err=%v", len(s.Lists), s.Root, wantErr != ""))
	if wantErr != "" {
		o.Reached = true
		o.ScnDistinct = true
		if err == nil {
			kind := strings.Fields(wantErr)[0]
			o.violate("error-expected", "C02/refresh-accepted-invalid-tags/"+kind, "Refresh must fail (%s) but succeeded; lists=%v root=%d", wantErr, s.Lists, s.Root)
		}
		x.do("destroy", func() { call(log.Destroy) })
		return
	}
	if err != nil {
		o.violate("refresh-error", "C02/refresh-error", "Refresh rejected a valid tag configuration: %v\nlists=%v", err, s.Lists)
		return
	}
	if s.Again {
		var err2 error
		x.do("refresh-again", func() { call(func() { err2 = log.Refresh(spec.Render()) }) })
		if err2 == nil {
			o.violate("second-refresh-accepted", "C02/second-refresh-accepted", "a second Refresh without Destroy succeeded")
		}
	}
	if got := log.GetAllTags(); len(got) != len(allNames) {
		o.violate("tag-registry", "C02/tag-registry-changed", "registered %d tags, registry lists %d", len(allNames), len(got))
	}
	subs := map[string]*Submitted{}
	x.Sim.Spawn("client", func() {
		for i, n := range allNames {
			subs[n] = emit(0, i, tags[n], n, EvOp{Kind: 2}, log.ErrorLevel)
		}
	})
	x.Sim.Run(nil)
	if st := x.clientsStuck(); len(st) > 0 {
		o.violate("log-call-blocked", "C02/log-call-blocked", "log calls did not return: %v", st)
	}
	x.Sim.Spawn("stopper", log.Destroy)
	x.Sim.Run(nil)
	judgeDied(x, "C02")
	x.Sim.Close()
	where := map[string][]string{}
	for i := range s.Lists {
		for _, it := range getRec(fmt.Sprintf("r%d", i)).snapshot() {
			id, _ := itemID(it)
			where[id] = append(where[id], fmt.Sprintf("lg%d", i))
		}
	}
	for _, it := range getRec("rroot").snapshot() {
		id, _ := itemID(it)
		where[id] = append(where[id], "root")
	}
	for _, it := range getRec("rstale").snapshot() {
		id, _ := itemID(it)
		where[id] = append(where[id], "root-of-the-rejected-configuration")
	}
	for _, w := range x.FS.StdoutWrites() {
		for _, m := range idInLine.FindAllSubmatch(w.Data, -1) {
			where[string(m[1])] = append(where[string(m[1])], "builtin-console")
		}
	}
	wild := false
	for _, n := range allNames {
		sb := subs[n]
		if sb == nil || sb.Panic != nil {
			if sb != nil {
				o.violate("log-call-panic", "C02/log-call-panic/"+sb.PanicAt, "logging through tag %s panicked: %v", n, sb.Panic)
			}
			continue
		}
		idx := modelResolve(n, s.Lists)
		want := "root"
		if idx >= 0 {
			want = fmt.Sprintf("lg%d", idx)
			lit := false
			for _, e := range s.Lists[idx] {
				if e == n {
					lit = true
				}
			}
			if !lit {
				wild = true
			}
		} else if s.Root == 0 {
			want = "builtin-console"
		}
		got := where[sb.ID]
		sort.Strings(got)
		if len(got) != 1 || got[0] != want {
			kind := "wildcard"
			if idx < 0 {
				kind = "fallback-to-root"
			} else if !wild {
				kind = "literal"
			}
			o.violate("wrong-logger", "C02/tag-served-by-wrong-logger/"+kind, "tag %q must be served by %s, but its event arrived at %v; lists=%v root=%d map_seed=%d", n, want, got, s.Lists, s.Root, s.Knobs.MapSeed)
		}
	}
	o.Reached = wild
	o.ScnDistinct = true
}
