package harness

import (
	"context"
	"fmt"
	"regexp"
	"strings"
	"time"

	log "github.com/go-spring/log"
	"github.com/go-spring/log/verifsim"
	"pgregory.net/rapid"
)

// Shared machinery for the asynchronous logger properties C04, C05, C06, C12.

type AOp struct {
	Raw  bool   `json:"raw,omitempty"`
	Lvl  string `json:"lvl,omitempty"` // level name for events
	Size int    `json:"size"`
}

type AsyncScn struct {
	Knobs      SimKnobs  `json:"knobs"`
	Via        string    `json:"via"`  // direct | refresh
	Kind       string    `json:"kind"` // AsyncLogger | Logger | Console | File | RollingFile (C05/C12)
	Policy     string    `json:"policy"`
	BufferSize int       `json:"buffer_size"`
	Level      string    `json:"level,omitempty"`
	Refs       []RefSpec `json:"refs"` // recording appenders rec0.. with their level strings
	LLayout    string    `json:"logger_layout,omitempty"`
	Producers  [][]AOp   `json:"producers"`
	Prefill    int       `json:"prefill,omitempty"`  // items submitted sequentially before the producers start
	Gate       int       `json:"gate"`               // 0 free worker, 1 gated (scheduler opens), 2 held until the end
	Slow       int       `json:"slow,omitempty"`     // yields inside every recording appender call
	Seq        []int     `json:"seq,omitempty"`      // C06 sequential histories: 0 event, 1 raw, 2 let the worker take one
	Reuse      bool      `json:"reuse,omitempty"`    // C12: every writer recycles one buffer
	StopTwice  bool      `json:"stop_twice,omitempty"`
	Separate   bool      `json:"separate,omitempty"` // RollingFile kind
	RAsync     bool      `json:"rolling_async,omitempty"`
	Style      Style     `json:"style"`
	Clock      []int     `json:"clock,omitempty"`     // simulated time the scheduler may let pass, in ms per decision
	RotMs      int       `json:"rotation_ms,omitempty"` // RollingFile kind: rotation interval
	Overflow   bool      `json:"overflow,omitempty"`     // C12: Block policy with more writes than the buffer holds
	Restart    bool      `json:"restart,omitempty"`      // direct AsyncLogger: a first life (Start, a few items, Stop) precedes the workload on the SAME object
	SleepMs    int       `json:"sleep_ms,omitempty"`     // the recording appender takes this much simulated time per item
	HandleOnly bool      `json:"handle_only,omitempty"`  // Refresh-built: the logger's tag list matches no registered tag; it is reached through its named handle only (raw writes)
	WriteFailAt int      `json:"write_fail_at,omitempty"` // C12 (File kind): the k-th write to the file is refused by the OS once (ENOSPC); everything else must still arrive
	HName      string    `json:"handle_name,omitempty"`  // C12 (Refresh-built): the logger's name, if not "alog"
	LongRun    int       `json:"long_run,omitempty"`     // C06: two producers submit this many items against a held worker
	WriteFail  bool      `json:"write_fail,omitempty"`   // C05 (file-backed kinds): two writes to the log files are refused by the OS (ENOSPC) while the producers run
	SyncFail   bool      `json:"sync_fail,omitempty"`    // C05: fsync on the log files fails (EINVAL, as on a pipe or a full disk) from before Stop on
	Rejected   bool      `json:"rejected_refresh,omitempty"` // C05 (Refresh-built): a second Refresh is attempted (and rejected) while the configuration is live
	DefaultSize bool     `json:"default_size,omitempty"` // the bufferSize attribute is omitted: the declared default (10000) applies
	Cycle      bool      `json:"cycle,omitempty"`     // C12: Refresh, Destroy, Refresh again; the handle of the first life is used
	Handles    int       `json:"handles,omitempty"` // C12: extra GetLogger calls for the same name
	BadHandle  bool      `json:"bad_handle,omitempty"`
}

func (s *AsyncScn) knobs() SimKnobs { return s.Knobs }

// Sub is one submission (event or raw write) as the harness knows it.
type Sub struct {
	ID       string
	Task     int
	Seq      int
	Raw      bool
	Level    string
	Code     int32
	Payload  []byte // raw: snapshot of the bytes at call time
	Invoke   int
	Return   int
	Returned bool
	Failed   bool // the simulated OS refused this very write (injected fault): it may be absent
	Panic    any
	PanicAt  string
	Empty    bool  // raw write of zero bytes (carries no identity)
	N        int   // raw via handle: returned n
	Err      error // raw via handle: returned err
}

// asyncSys is the system under test plus the handles the harness needs.
type asyncSys struct {
	s          *AsyncScn
	logger     log.Logger           // direct mode
	tag        *log.Tag             // refresh mode
	handle     *log.LoggerWrapper   // refresh mode raw writes
	recs       []*Rec
	refRanges  []mRange
	logRange   mRange
	counter    func() int64
	stop       func()
	capacity   int
	err        error
	watchBase  int  // watched-site hits that belong to a first life (Restart)
	gateOpen   bool // gates may be opened although the scenario says "held" (final drain)
}

var idInLine = regexp.MustCompile(`id[=":]+"?(t\d+s\d+)`)

// itemID identifies an item received by a recording appender.
func itemID(it Item) (id string, raw bool) {
	if it.Ev != nil {
		return it.Ev.ID, false
	}
	d := string(it.Wr.Data)
	if strings.HasPrefix(d, "raw:") {
		if i := strings.Index(d[4:], ":"); i >= 0 {
			return d[4 : 4+i], true
		}
		return d, true
	}
	if m := idInLine.FindStringSubmatch(d); m != nil {
		return m[1], false
	}
	return "?" + short(d, 40), false
}

func rawPayload(task, seq, size int) []byte {
	return []byte(fmt.Sprintf("raw:t%ds%d:%s\n", task, seq, filler(task+500, seq, size)))
}

func policyOf(p string) log.BufferFullPolicy {
	switch p {
	case "Block":
		return log.BufferFullPolicyBlock
	case "DiscardOldest":
		return log.BufferFullPolicyDiscardOldest
	}
	return log.BufferFullPolicyDiscard
}

func levelRangeOf(r mRange) log.LevelRange {
	return log.LevelRange{MinLevel: levelByCode(r.Min), MaxLevel: levelByCode(r.Max)}
}

func levelByCode(c int32) log.Level {
	for _, n := range levelNames { // sorted: the choice among names sharing a code is fixed
		if levelCodes[n] == c {
			return levelByName(n)
		}
	}
	panic("harness: no level with code " + fmt.Sprint(c))
}

// buildAsync constructs the logger (directly or through Refresh) with one
// recording appender per reference.
func buildAsync(x *Exec, s *AsyncScn) *asyncSys {
	sys := &asyncSys{s: s, capacity: s.BufferSize}
	sys.logRange, _ = modelRange(s.Level)
	sys.refRanges = modelRefRanges(s.Refs)
	for i := range s.Refs {
		r := getRec(fmt.Sprintf("rec%d", i))
		r.Slow = s.Slow
		r.SleepMs = s.SleepMs
		if s.Gate != 0 && !(s.Restart && s.Via == "direct" && s.Kind == "AsyncLogger") {
			r.SetGate()
		}
		sys.recs = append(sys.recs, r)
	}
	switch s.Via {
	case "direct":
		var refs []*log.AppenderRef
		for i := range s.Refs {
			a := &RecAppender{AppenderBase: log.AppenderBase{Name: fmt.Sprintf("rec%d", i)}}
			if s.Knobs.MapSeed%4 >= 2 {
				a = &RecAppender{RecKey: fmt.Sprintf("rec%d", i)} // a logger assembled from structs: nobody named the appenders
			}
			a.Start()
			ref := &log.AppenderRef{Appender: a, Ref: a.Name, Level: levelRangeOf(sys.refRanges[i])}
			if s.Knobs.MapSeed%2 == 1 {
				ref.Ref = "" // references built in code need not carry a name
			}
			refs = append(refs, ref)
		}
		base := log.LoggerBase{Name: "alog", Level: levelRangeOf(sys.logRange)}
		if s.LLayout == "JSONLayout" {
			base.Layout = &log.JSONLayout{BaseLayout: log.BaseLayout{FileLineLength: 48}}
		} else if s.LLayout == "TextLayout" {
			base.Layout = &log.TextLayout{BaseLayout: log.BaseLayout{FileLineLength: 48}}
		}
		switch s.Kind {
		case "AsyncLogger":
			l := &log.AsyncLogger{LoggerBase: base, AppenderRefs: log.AppenderRefs{AppenderRefs: refs}, BufferSize: s.BufferSize, BufferFullPolicy: policyOf(s.Policy)}
			sys.err = l.Start()
			sys.logger, sys.counter, sys.stop = l, l.GetDiscardCounter, l.Stop
			if s.Restart && sys.err == nil {
				// a first life on the same object: a few items, Stop, Start again. The
				// workload proper then runs on a restarted logger, which is a started logger.
				ok := x.do("first-life", func() {
					for k := 0; k < 3; k++ {
						sys.submit(90, k, AOp{Lvl: "ERROR", Raw: k == 1, Size: 5}, nil)
					}
					l.Stop()
					sys.err = l.Start()
				})
				if !ok {
					sys.err = fmt.Errorf("first life (Start, 3 items, Stop, Start) did not return: %v", x.clientsStuck())
				}
				sys.watchBase = len(x.Sim.Watched())
				base := l.GetDiscardCounter()
				sys.counter = func() int64 { return l.GetDiscardCounter() - base }
				for _, r := range sys.recs {
					r.clear()
					if s.Gate != 0 {
						r.SetGate()
					}
				}
			}
		case "Logger":
			l := &log.SyncLogger{LoggerBase: base, AppenderRefs: log.AppenderRefs{AppenderRefs: refs}}
			sys.err = l.Start()
			sys.logger, sys.counter, sys.stop = l, func() int64 { return 0 }, l.Stop
		default:
			panic("harness: direct kind " + s.Kind)
		}
	case "refresh":
		spec := &SysSpec{Style: s.Style, Props: map[string]string{"enableCaller": "false"}}
		lg := LogSpec{Name: "alog", Type: s.Kind, Tags: []string{"_app_*"}, Level: s.Level, Layout: s.LLayout}
		if s.HandleOnly {
			lg.Tags = []string{"legacy_*"} // no tag of that family is registered
		}
		if s.Kind == "AsyncLogger" {
			lg.BufferSize, lg.Policy = s.BufferSize, s.Policy
			if s.DefaultSize {
				lg.BufferSize = 0 // not written: default
			}
		}
		for i, r := range s.Refs {
			spec.Apps = append(spec.Apps, AppSpec{Name: fmt.Sprintf("rec%d", i), Type: "Rec"})
			lg.Refs = append(lg.Refs, RefSpec{Ref: fmt.Sprintf("rec%d", i), Level: r.Level})
		}
		spec.Logs = []LogSpec{lg}
		sys.tag = log.TagAppDef
		sys.handle = log.GetLogger("alog")
		cfg := spec.Render()
		var pv any
		var st string
		if !x.do("refresh", func() { pv, st = call(func() { sys.err = log.Refresh(cfg) }) }) {
			sys.err = fmt.Errorf("Refresh did not return: %v", x.clientsStuck())
		}
		if pv != nil {
			sys.err = fmt.Errorf("Refresh panicked: %v at %s", pv, panicSite(st))
		}
		if s.Rejected && sys.err == nil {
			var err2 error
			x.do("second-refresh", func() { call(func() { err2 = log.Refresh(cfg) }) })
			if err2 == nil {
				sys.err = fmt.Errorf("a second Refresh without Destroy was accepted")
			}
		}
		sys.stop = log.Destroy
		sys.counter = func() int64 { return 0 }
		for _, l := range log.VerifLoggers() { // captured now: Destroy forgets the loggers
			if a, ok := l.(*log.AsyncLogger); ok {
				sys.counter = a.GetDiscardCounter
			}
		}
	}
	return sys
}

// submit performs one submission from the calling task.
func (sys *asyncSys) submit(task, seq int, op AOp, reuse *[]byte) *Sub {
	id := fmt.Sprintf("t%ds%d", task, seq)
	sb := &Sub{ID: id, Task: task, Seq: seq, Raw: op.Raw}
	sb.Invoke, _ = stepTask()
	var pv any
	var st string
	if op.Raw {
		var p []byte
		if op.Size < 0 {
			p = []byte{} // an empty write: zero-length slice or nil, both legal io.Writer arguments
			if (task+seq)%2 == 0 {
				p = nil
			}
			sb.Empty = true
		} else {
			p = rawPayload(task, seq, op.Size)
		}
		sb.Payload = append([]byte(nil), p...)
		buf := p
		if reuse != nil {
			// the caller owns one buffer and recycles it across writes
			*reuse = append((*reuse)[:0], p...)
			buf = *reuse
		}
		if sys.handle != nil {
			pv, st = call(func() { sb.N, sb.Err = sys.handle.Write(buf) })
		} else {
			pv, st = call(func() { sys.logger.Write(buf); sb.N = len(buf) })
		}
		if reuse != nil {
			// the caller is free to scribble over its buffer as soon as Write returned
			for i := range *reuse {
				(*reuse)[i] = '#'
			}
		}
	} else {
		sb.Level = op.Lvl
		sb.Code = levelCodes[strings.ToUpper(op.Lvl)]
		fields := []log.Field{log.String("id", id), log.Int("len", op.Size), log.String("pad", filler(task, seq, op.Size))}
		if sys.tag != nil {
			ctx := context.WithValue(context.Background(), ctxKey, evKey{task: task, seq: seq})
			// through the entry point that belongs to the level (every other time), else Record:
			// no entry point may treat the queue differently
			lv := levelByName(op.Lvl)
			switch {
			case seq%2 == 1:
				pv, st = call(func() { log.Record(ctx, lv, sys.tag, 1, fields...) })
			case strings.EqualFold(op.Lvl, "INFO"):
				pv, st = call(func() { log.Info(ctx, sys.tag, fields...) })
			case strings.EqualFold(op.Lvl, "WARN"):
				pv, st = call(func() { log.Warn(ctx, sys.tag, fields...) })
			case strings.EqualFold(op.Lvl, "ERROR"):
				pv, st = call(func() { log.Error(ctx, sys.tag, fields...) })
			case strings.EqualFold(op.Lvl, "FATAL") && seq%4 == 0:
				pv, st = call(func() { log.Fatal(ctx, sys.tag, fields...) })
			case strings.EqualFold(op.Lvl, "FATAL"):
				pv, st = call(func() { log.Fatalf(ctx, sys.tag, "id=%s pad=%d", id, op.Size) })
			case strings.EqualFold(op.Lvl, "TRACE"):
				pv, st = call(func() { log.Trace(ctx, sys.tag, func() []log.Field { return fields }) })
			case strings.EqualFold(op.Lvl, "DEBUG"):
				pv, st = call(func() { log.Debug(ctx, sys.tag, func() []log.Field { return fields }) })
			default:
				pv, st = call(func() { log.Record(ctx, lv, sys.tag, 1, fields...) })
			}
		} else {
			pv, st = call(func() {
				e := log.GetEvent()
				e.Level, e.Time, e.File, e.Line, e.Tag, e.Fields = levelByName(op.Lvl), evTime(evKey{task: task, seq: seq}), "direct.go", seq, "_app_def", fields
				sys.logger.Append(e)
			})
		}
	}
	sb.Return, _ = stepTask()
	if pv != nil {
		sb.Panic, sb.PanicAt = pv, panicSite(st)
	} else {
		sb.Returned = true
	}
	return sb
}

// gateEnvs registers one "open the gate for one item" action per recorder.
func (sys *asyncSys) gateEnvs(x *Exec, whenStuck bool) {
	for i, r := range sys.recs {
		x.Sim.AddEnv(&verifsim.EnvAction{Name: fmt.Sprintf("gate%d", i), WhenStuck: whenStuck,
			Enabled: func() bool { return (sys.s.Gate == 1 || sys.gateOpen) && r.CanOpen() },
			Run:     func() { r.Open(); x.Sim.Probe("gate_opened") }})
	}
}

// drain opens every gate until nothing is waiting any more (fault-free, fair
// stabilisation: used when the run must terminate).
func (sys *asyncSys) drain(x *Exec) verifsim.RunResult {
	var res verifsim.RunResult
	for round := 0; round < 100000; round++ {
		res = x.Sim.Run(nil)
		opened := false
		for _, r := range sys.recs {
			if r.CanOpen() {
				r.Open()
				opened = true
			}
		}
		if !opened {
			return res
		}
	}
	return res
}

var asyncLevels = []string{"TRACE", "DEBUG", "INFO", "NOTICE", "WARN", "ERROR", "FATAL", "VERBOSE", "TOP"}

func genAsyncBase(rt *rapid.T, thorough bool) *AsyncScn {
	s := &AsyncScn{Knobs: genKnobs(rt), Kind: "AsyncLogger"}
	s.Via = rapid.SampledFrom([]string{"direct", "direct", "refresh"}).Draw(rt, "via")
	s.Style = genStyle(rt)
	s.Restart = s.Via == "direct" && rapid.IntRange(0, 3).Draw(rt, "restart") == 0
	s.Policy = rapid.SampledFrom([]string{"Discard", "DiscardOldest", "Block"}).Draw(rt, "policy")
	s.BufferSize = rapid.SampledFrom([]int{100, 100, 101, 130}).Draw(rt, "buffer_size")
	if thorough {
		s.BufferSize = rapid.SampledFrom([]int{100, 100, 101, 130, 250, 400}).Draw(rt, "buffer_size_t")
	}
	s.Level = rapid.SampledFrom([]string{"", "", "INFO", "debug", "TRACE~FATAL"}).Draw(rt, "level")
	switch rapid.IntRange(0, 3).Draw(rt, "refshape") {
	case 0, 1:
		s.Refs = []RefSpec{{Ref: "rec0"}}
	case 2:
		s.Refs = []RefSpec{{Ref: "rec0"}, {Ref: "rec1", Level: rapid.SampledFrom([]string{"WARN", "WARN", "NOTICE", "AUDIT", "VERBOSE"}).Draw(rt, "ref1_level")}}
	case 3:
		s.Refs = []RefSpec{{Ref: "rec0", Level: "ERROR"}, {Ref: "rec1"}, {Ref: "rec2", Level: "info"}}
	}
	if rapid.IntRange(0, 4).Draw(rt, "llayout") == 0 {
		s.LLayout = rapid.SampledFrom([]string{"TextLayout", "JSONLayout"}).Draw(rt, "llayout_kind")
	}
	return s
}

func genProducers(rt *rapid.T, s *AsyncScn, maxProd, total int, rawShare int) {
	np := rapid.IntRange(1, maxProd).Draw(rt, "producers")
	for p := 0; p < np; p++ {
		n := total / np
		if n < 1 {
			n = 1
		}
		n = rapid.IntRange(1, n).Draw(rt, "nops")
		var ops []AOp
		for i := 0; i < n; i++ {
			op := AOp{Size: rapid.SampledFrom([]int{0, 0, 5, 30}).Draw(rt, "size")}
			if rapid.IntRange(0, 9).Draw(rt, "raw") < rawShare {
				op.Raw = true
				if len(s.Refs) == 1 && rapid.IntRange(0, 7).Draw(rt, "empty_raw") == 0 {
					op.Size = -1 // an empty raw write is a legal io.Writer call
				}
			} else {
				op.Lvl = rapid.SampledFrom(asyncLevels).Draw(rt, "lvl")
			}
			ops = append(ops, op)
		}
		s.Producers = append(s.Producers, ops)
	}
}

// spawnProducers starts the producer tasks; subs[p] is filled as they run.
func (sys *asyncSys) spawnProducers(x *Exec, subs [][]*Sub) {
	for p := range sys.s.Producers {
		x.Sim.Spawn(fmt.Sprintf("producer%d", p), func() {
			var buf []byte
			var reuse *[]byte
			if sys.s.Reuse {
				reuse = &buf
			}
			for i, op := range sys.s.Producers[p] {
				subs[p] = append(subs[p], sys.submit(p, i, op, reuse))
			}
		})
	}
}

// accepted reports whether a returned submission counts as "submitted at an enabled level".
func (sys *asyncSys) accepted(sb *Sub) bool {
	return sb.Returned && (sb.Raw || sys.logRange.has(sb.Code))
}

// wants reports whether reference i must receive the submission if it is delivered.
func (sys *asyncSys) wants(i int, sb *Sub) bool {
	return sb.Raw || sys.refRanges[i].has(sb.Code)
}

// clockEnvMs lets the scheduler advance the simulated clock by the listed
// amounts, one per decision (a timeout hidden in a "wait for space" or a
// rotation boundary only shows when time actually passes).
func clockEnvMs(x *Exec, moves []int) {
	idx := 0
	x.Sim.AddEnv(&verifsim.EnvAction{Name: "time-passes", Enabled: func() bool { return idx < len(moves) }, Run: func() {
		d := moves[idx]
		idx++
		x.Sim.Probe("clock_advanced")
		x.Sim.Advance(time.Duration(d) * time.Millisecond)
	}})
}
