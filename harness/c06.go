package harness

import (
	"encoding/json"
	"fmt"
	"sort"
	"strings"
	"time"

	"github.com/anishathalye/porcupine"
	log "github.com/go-spring/log"
	"pgregory.net/rapid"
)

// C06 — async logger keeps per-producer order and honours its overflow policy.

type c06 struct{}

func init() { register(c06{}) }

func (c06) ID() string    { return "C06" }
func (c06) Level() string { return "exploration" }
func (c06) Rule() string {
	return "two workloads, drawn by rapid from the seed. (A) sequential histories: one client, the worker single-stepped through a gated recording appender; random sequences over {append event, raw write, let the worker take one item} from an empty, partially full or full buffer, every policy; checked operation by operation against an executable bounded-FIFO model (capacity = configured bufferSize, one item in the worker's hand): delivered sequence, discard counter, and whether the client is blocked must all equal the model. (B) concurrent: 2-8 producers after a sequential prefill close to capacity, gate opened at scheduler-chosen steps or held for the whole run; per-producer delivery order; for Discard and Block the recorded history (invoke/return stamped with scheduler step numbers, worker takes stamped with [previous item done, appender entry]) is checked with porcupine against the atomic queue model (Unknown = inconclusive, counted, never reported); for DiscardOldest only consequences valid for every legal behaviour. Non-trivial = overflow actually happened (model or counter) in A, or at least two overlapping operations plus a full buffer in B; distinct = distinct context-switch trace hashes combined with the operation sequence. (C) async RollingFile logger (with/without .wf file), 1-3 producers mixing events and raw writes of 3 B-40 KB, worker often starved: per file and producer the items appear in submission order, each exactly once where it belongs. Raw payloads of 40 000 bytes occur in A and B too; a quarter of the directly built loggers run the workload in their second life."
}
func (c06) Decode(raw json.RawMessage) (any, error) {
	var s AsyncScn
	err := json.Unmarshal(raw, &s)
	return &s, err
}

func (c06) Gen(rt *rapid.T, thorough bool) any {
	s := genAsyncBase(rt, thorough)
	s.Level = ""
	s.Refs = []RefSpec{{Ref: "rec0"}}
	// with a logger-level layout the worker formats events itself and hands bytes to the appender:
	// the queue in front of it is the same queue
	s.LLayout = rapid.SampledFrom([]string{"", "", "TextLayout", "JSONLayout"}).Draw(rt, "llayout6")
	if rapid.IntRange(0, 7).Draw(rt, "rolling_async") == 0 {
		// (C) the async mode of the RollingFile logger is the same queue behind another front
		s.Kind, s.RAsync, s.Via, s.Restart, s.RotMs = "RollingFile", true, "direct", false, 3600000
		s.Separate = rapid.Bool().Draw(rt, "separate6")
		if rapid.Bool().Draw(rt, "starve6") {
			s.Knobs.Starve = []string{"go@plugin_logger"}
		}
		genProducers(rt, s, 3, 30, 2)
		for p := range s.Producers {
			for i := range s.Producers[p] {
				op := &s.Producers[p][i]
				if op.Raw {
					op.Size = rapid.SampledFrom([]int{3, 3, 200, 40000}).Draw(rt, "raw_size6")
				} else {
					op.Lvl = rapid.SampledFrom([]string{"INFO", "INFO", "ERROR"}).Draw(rt, "lvl6r")
				}
			}
		}
		if rapid.IntRange(0, 2).Draw(rt, "roll_overflow") == 0 {
			// more items than the buffer holds while the worker is behind: the configured policy
			// decides, and under the discarding policies no log call waits
			s.Overflow, s.BufferSize = true, 100
			s.Knobs.Starve = []string{"go@plugin_logger"}
			s.Producers = nil
			for p := 0; p < 2; p++ {
				var ops []AOp
				for i := 0; i < 130; i++ {
					ops = append(ops, AOp{Lvl: "INFO", Raw: i%4 == 3, Size: 3})
				}
				s.Producers = append(s.Producers, ops)
			}
		}
		return s
	}
	if rapid.Bool().Draw(rt, "sequential") {
		s.Gate = 1
		scaleOdds := 80
		if thorough {
			scaleOdds = 15
		}
		if rapid.IntRange(0, scaleOdds).Draw(rt, "default_scale6") == 0 {
			// the declared default capacity: bufferSize omitted, overflow only after 10000 + 1 items
			s.BufferSize, s.DefaultSize = 10000, true
			s.Prefill = 10001
			for i, n := 0, rapid.IntRange(1, 6).Draw(rt, "nseq_scale"); i < n; i++ {
				s.Seq = append(s.Seq, rapid.SampledFrom([]int{0, 0, 1, 2}).Draw(rt, "seqop_scale"))
			}
			return s
		}
		s.Prefill = rapid.SampledFrom([]int{0, 5, s.BufferSize - 1, s.BufferSize, s.BufferSize + 1, s.BufferSize + 1}).Draw(rt, "prefill")
		n := rapid.IntRange(1, 30).Draw(rt, "nseq")
		if thorough {
			n = rapid.IntRange(1, 80).Draw(rt, "nseq_t")
		}
		for i := 0; i < n; i++ {
			s.Seq = append(s.Seq, rapid.SampledFrom([]int{0, 0, 0, 1, 2, 2, 3}).Draw(rt, "seqop"))
		}
		return s
	}
	s.Knobs.Watch = []string{":range"}
	if k := rapid.IntRange(0, 9).Draw(rt, "contention6"); k < 2 || k >= 8 {
		// contention preset: many producers on a full buffer whose worker is held for the whole
		// phase, a scheduling choice at every step - the evict-and-retry loops race each other
		s.Policy, s.Gate, s.Restart = "DiscardOldest", 2, false
		s.Knobs.Dense, s.Knobs.Strategy, s.Knobs.Starve = true, 0, nil
		s.Prefill = s.BufferSize + 1
		np := rapid.IntRange(8, 12).Draw(rt, "contention_producers6")
		for p := 0; p < np; p++ {
			var ops []AOp
			for i := 0; i < 240/np; i++ {
				ops = append(ops, AOp{Lvl: []string{"INFO", "ERROR"}[(p+i)%2], Raw: (p+i)%5 == 0, Size: 2})
			}
			s.Producers = append(s.Producers, ops)
		}
		return s
	} else if k == 2 {
		// a very long run of discards on one logger: nothing about the 65536th is special
		s.Policy = rapid.SampledFrom([]string{"Discard", "DiscardOldest"}).Draw(rt, "long_policy")
		s.Gate, s.Restart, s.Prefill, s.BufferSize, s.Via = 2, false, 0, 100, "direct"
		s.Knobs.Starve, s.Knobs.Strategy = nil, 0
		long := 66000
		if !thorough && rapid.IntRange(0, 7).Draw(rt, "long_run") != 0 {
			long = 300 // most quick-tier cases of this preset stay short
		}
		s.LongRun = long
		s.Knobs.MaxSteps = 40 * long
		s.Producers = [][]AOp{nil, nil}
		return s
	}
	s.Gate = rapid.SampledFrom([]int{1, 1, 2}).Draw(rt, "gatemode")
	s.Prefill = rapid.SampledFrom([]int{0, s.BufferSize - 6, s.BufferSize - 1, s.BufferSize + 1}).Draw(rt, "prefill_b")
	for i, n := 0, rapid.IntRange(0, 3).Draw(rt, "nclock"); i < n; i++ {
		s.Clock = append(s.Clock, rapid.SampledFrom([]int{1, 1500, 61000, 3600000}).Draw(rt, "clock_ms"))
	}
	total := 36
	if thorough {
		total = 60
	}
	genProducers(rt, s, 5, total, 3)
	for len(s.Producers) < 2 {
		s.Producers = append(s.Producers, []AOp{{Lvl: "INFO"}})
	}
	for p := range s.Producers {
		for i := range s.Producers[p] {
			if s.Producers[p][i].Raw && s.Producers[p][i].Size < 0 {
				s.Producers[p][i].Size = 3 // every item needs an identity here
			}
			if s.Producers[p][i].Raw && rapid.IntRange(0, 5).Draw(rt, "big_raw") == 0 {
				s.Producers[p][i].Size = 40000 // size must not change how a raw write is queued
			}
			if !s.Producers[p][i].Raw {
				// all enabled (the logger takes everything) but of different severities:
				// no policy may treat items differently by level
				s.Producers[p][i].Lvl = rapid.SampledFrom([]string{"TRACE", "INFO", "WARN", "ERROR", "FATAL"}).Draw(rt, "lvl6")
			}
		}
	}
	return s
}

func (c c06) Run(x *Exec, scn any) {
	s := scn.(*AsyncScn)
	if s.Kind == "RollingFile" {
		c.runRoll(x, s)
	} else if len(s.Seq) > 0 {
		c.runSeq(x, s)
	} else {
		c.runConc(x, s)
	}
}

// ---- executable reference model: bounded FIFO + one item in the worker's hand

type qModel struct {
	cap       int
	policy    string
	hand      string
	queue     []string
	pending   string // item of the blocked client (Block policy)
	counter   int64
	delivered []string
	overflow  int
}

func (m *qModel) submit(id string) {
	switch {
	case m.hand == "":
		m.hand = id
		m.delivered = append(m.delivered, id)
	case len(m.queue) < m.cap:
		m.queue = append(m.queue, id)
	default:
		m.overflow++
		switch m.policy {
		case "Discard":
			m.counter++
		case "DiscardOldest":
			m.queue = append(m.queue[1:], id)
			m.counter++
		case "Block":
			m.pending = id
		}
	}
}

func (m *qModel) take() {
	if m.hand == "" {
		return
	}
	m.hand = ""
	if len(m.queue) > 0 {
		m.hand = m.queue[0]
		m.queue = m.queue[1:]
		m.delivered = append(m.delivered, m.hand)
		if m.pending != "" {
			m.queue = append(m.queue, m.pending)
			m.pending = ""
		}
	}
}

func (c06) runSeq(x *Exec, s *AsyncScn) {
	o := x.Out
	sys := buildAsync(x, s)
	if sys.err != nil {
		o.violate("start-error", "C06/start-error", "valid async logger rejected: %v", sys.err)
		return
	}
	rec := sys.recs[0]
	m := &qModel{cap: s.BufferSize, policy: s.Policy}
	n := 0
	var all []*Sub
	clientBlocked := func() bool {
		for _, t := range x.Sim.Tasks() {
			if !t.Daemon && t.State != 5 {
				return true
			}
		}
		return false
	}
	check := func(opDesc string) bool {
		got := rec.snapshot()
		ok := len(got) == len(m.delivered)
		for i := 0; ok && i < len(got); i++ {
			id, _ := itemID(got[i])
			ok = id == m.delivered[i]
		}
		if !ok {
			var ids []string
			for _, it := range got {
				id, _ := itemID(it)
				ids = append(ids, id)
			}
			o.violate("sequence-mismatch", "C06/seq/delivery-differs-from-model/"+s.Policy,
				"after %s (policy %s, capacity %d): delivered sequence differs from the bounded-FIFO model\n got  tail: %v\n want tail: %v", opDesc, s.Policy, m.cap, tail(ids, 6), tail(m.delivered, 6))
			return false
		}
		if c := sys.counter(); c != m.counter {
			o.violate("counter-mismatch", "C06/seq/discard-counter-differs-from-model/"+s.Policy, "after %s: discard counter %d, model %d", opDesc, c, m.counter)
			return false
		}
		if b := clientBlocked(); b != (m.pending != "") {
			if b {
				o.violate("unexpected-block", "C06/seq/log-call-waits-for-appender/"+s.Policy, "after %s: the log call did not return although the model (policy %s) says it must not wait (queue %d/%d)", opDesc, s.Policy, len(m.queue), m.cap)
			} else {
				o.violate("no-block", "C06/seq/block-policy-did-not-wait", "after %s: Block policy, buffer full, but the call returned", opDesc)
			}
			return false
		}
		return true
	}
	// prefill, one submission per phase so that the worker is quiescent (blocked at
	// the gate with one item in its hand) before every submission, as the model assumes
	ops := make([]int, 0, s.Prefill+len(s.Seq))
	for i := 0; i < s.Prefill && i <= s.BufferSize+1; i++ {
		ops = append(ops, 0)
	}
	_ = ops
	ops = append(ops, s.Seq...)
	for k, op := range ops {
		switch op {
		case 0, 1:
			if m.pending != "" {
				continue // the single client goroutine is blocked inside its previous call
			}
			seq := n
			n++
			aop := AOp{Lvl: []string{"INFO", "ERROR", "TRACE", "FATAL", "WARN"}[(seq*7+k)%5], Raw: op == 1, Size: 3}
			if op == 1 && (seq+k)%3 == 0 {
				aop.Size = 40000
			}
			x.Sim.Spawn(fmt.Sprintf("client-op%d", k), func() { all = append(all, sys.submit(0, seq, aop, nil)) })
			x.Sim.Run(nil)
			m.submit(fmt.Sprintf("t0s%d", seq))
			if !check(fmt.Sprintf("op %d: submit t0s%d", k, seq)) {
				finishSeq(x, sys)
				return
			}
		case 2:
			if rec.CanOpen() {
				rec.Open()
				x.Sim.Run(nil)
			}
			m.take()
			if !check(fmt.Sprintf("op %d: worker takes one item", k)) {
				finishSeq(x, sys)
				return
			}
		case 3:
			// time passes while nothing else happens: nothing may change (Block keeps waiting)
			x.Sim.Advance(90 * time.Second)
			x.Sim.Run(nil)
			x.Sim.Probe("clock_advanced")
			if !check(fmt.Sprintf("op %d: 90 s pass", k)) {
				finishSeq(x, sys)
				return
			}
		}
	}
	o.Reached = m.overflow > 0
	x.Sim.NoteState(fmt.Sprintf("q%d/%d hand=%v pol=%s", len(m.queue), m.cap, m.hand != "", s.Policy))
	// drain: everything still held must come out in model order
	for m.hand != "" {
		m.take()
	}
	finishSeq(x, sys)
	got := rec.snapshot()
	ok := len(got) == len(m.delivered)
	for i := 0; ok && i < len(got); i++ {
		id, _ := itemID(got[i])
		ok = id == m.delivered[i]
	}
	if !ok && len(o.Violations) == 0 {
		o.violate("sequence-mismatch", "C06/seq/final-drain-differs-from-model/"+s.Policy, "after Stop %d items were delivered, the model delivers %d (or order differs)", len(got), len(m.delivered))
	}
	for _, sb := range all {
		if sb.Panic != nil {
			o.violate("submit-panic", "C06/submit-panic/"+sb.PanicAt, "submission %s panicked: %v", sb.ID, sb.Panic)
		}
	}
}

func finishSeq(x *Exec, sys *asyncSys) {
	sys.gateOpen = true
	sys.drain(x)
	x.Sim.Spawn("stopper", sys.stop)
	sys.drain(x)
	judgeDied(x, "C06")
	x.Sim.Close()
}

func tail(s []string, n int) []string {
	if len(s) > n {
		return s[len(s)-n:]
	}
	return s
}

// ---- concurrent workload

// runRoll: the async RollingFile logger. Fewer items than the buffer holds, so nothing may be
// dropped; in every file the items of one producer appear in the order it submitted them.
func (c06) runRoll(x *Exec, s *AsyncScn) {
	o := x.Out
	x.FS.MkdirAll("/logs")
	l := &log.RollingFileLogger{LoggerBase: log.LoggerBase{Name: "rlog", Level: log.LevelRange{MinLevel: log.NoneLevel, MaxLevel: log.MaxLevel}},
		FileDir: "/logs", FileName: "app.log", Separate: s.Separate, Rotation: log.TimeRotation{Interval: time.Hour}, MaxAge: 168,
		AsyncWrite: true, BufferSize: s.BufferSize, BufferFullPolicy: policyOf(s.Policy)}
	var startErr error
	if !x.do("start", func() { startErr = l.Start() }) || startErr != nil {
		o.violate("start-error", "C06/roll/start-error", "valid async RollingFile logger did not start: %v %v", startErr, x.clientsStuck())
		return
	}
	sys := &asyncSys{s: s, logger: l, capacity: s.BufferSize}
	sys.logRange, _ = modelRange("")
	subs := make([][]*Sub, len(s.Producers))
	sys.spawnProducers(x, subs)
	res := x.Sim.Run(x.harnessTasksDone)
	for _, t := range x.Sim.Tasks() {
		if strings.HasPrefix(t.Name, "producer") && t.State != 5 {
			o.violate("producer-stuck", "C06/roll/log-call-did-not-return/"+s.Policy, "producer %s blocked at %s with a buffer that cannot be full: %v", t.Name, t.Site, res.Blocked)
			return
		}
	}
	if s.Policy != "Block" && x.Sim.Probes["blocked:producer"] > 0 {
		o.violate("waits-for-appender", "C06/roll/log-call-waits-for-appender/"+s.Policy, "a log call on the async RollingFile logger (policy %s) waited on the full buffer instead of discarding", s.Policy)
		return
	}
	if !x.do("stopper", l.Stop) {
		o.violate("stop-stuck", "C06/roll/stop-did-not-return", "Stop did not return: %v", x.clientsStuck())
		return
	}
	judgeDied(x, "C06")
	x.Sim.Close()
	o.Reached = x.Sim.Preemptions() > 0
	files := x.FS.AllFiles()
	for _, name := range []string{"app.log", "app.log.wf"} {
		if name == "app.log.wf" && !s.Separate {
			continue
		}
		var data []byte
		for p, d := range files {
			if rest, ok := strings.CutPrefix(p, "/logs/"+name+"."); ok && len(rest) == 14 && strings.Trim(rest, "0123456789") == "" {
				data = d
			}
		}
		lastSeq := map[int]int{}
		seen := map[string]int{}
		for _, line := range strings.Split(string(data), "\n") {
			id := ""
			if strings.HasPrefix(line, "raw:") {
				if i := strings.Index(line[4:], ":"); i >= 0 {
					id = line[4 : 4+i]
				}
			} else if m := idInLine.FindStringSubmatch(line); m != nil {
				id = m[1]
			}
			if id == "" {
				continue
			}
			var task, seq int
			fmt.Sscanf(id, "t%ds%d", &task, &seq)
			seen[id]++
			if prev, ok := lastSeq[task]; ok && seq < prev {
				o.violate("producer-order", "C06/roll/per-producer-order-violated/"+name, "in %s item %s of producer %d comes after its later item s%d (events and raw writes share one queue)", name, id, task, prev)
				return
			}
			lastSeq[task] = seq
		}
		for _, ps := range subs {
			for _, sb := range ps {
				if !sb.Returned {
					continue
				}
				want := sb.Raw || !s.Separate || (name == "app.log") == (sb.Code < levelCodes["WARN"])
				if s.Overflow && s.Policy != "Block" && seen[sb.ID] <= 1 && (want || seen[sb.ID] == 0) {
					continue // with more items than capacity the discarding policies may drop; order and no duplicates still hold
				}
				if n := seen[sb.ID]; (want && n != 1) || (!want && n != 0) {
					o.violate("roll-conservation", "C06/roll/item-count-in-file/"+name, "%s (raw=%v level=%s) appears %d times in %s, expected %v (nothing can be dropped: %d items, capacity %d); files: %s", sb.ID, sb.Raw, sb.Level, n, name, want, totalOps(s), s.BufferSize, fileSummary(files))
					return
				}
			}
		}
	}
}

func fileSummary(files map[string][]byte) string {
	var names []string
	for p := range files {
		names = append(names, p)
	}
	sort.Strings(names)
	var b strings.Builder
	for _, p := range names {
		fmt.Fprintf(&b, "%s=%q ", p, short(string(files[p]), 300))
	}
	return b.String()
}

type qIn struct {
	Take bool
	ID   string
}

func (c06) runConc(x *Exec, s *AsyncScn) {
	o := x.Out
	sys := buildAsync(x, s)
	if sys.err != nil {
		o.violate("start-error", "C06/start-error", "valid async logger rejected: %v", sys.err)
		return
	}
	rec := sys.recs[0]
	var pre []*Sub
	if s.Prefill > 0 {
		x.Sim.Spawn("prefill", func() {
			for i := 0; i < s.Prefill; i++ {
				pre = append(pre, sys.submit(99, i, AOp{Lvl: "INFO"}, nil))
			}
		})
		x.Sim.Run(nil)
	}
	sys.gateEnvs(x, s.Policy == "Block") // for the discard policies nothing may depend on the worker
	clockEnvMs(x, s.Clock)
	subs := make([][]*Sub, len(s.Producers))
	if s.LongRun > 0 {
		// two producers, s.LongRun submissions in total, alternating events and raw writes
		for p := range subs {
			x.Sim.Spawn(fmt.Sprintf("producer%d", p), func() {
				for i := 0; i < s.LongRun/2; i++ {
					subs[p] = append(subs[p], sys.submit(p, i, AOp{Lvl: "INFO", Raw: i%3 == 0, Size: 1}, nil))
				}
			})
		}
	} else {
		sys.spawnProducers(x, subs)
	}
	res := x.Sim.Run(nil)
	if res.StepCap {
		o.violate("livelock", "C06/conc/producer-livelock/"+s.Policy, "producers did not finish within the step cap")
	}
	if s.Policy != "Block" {
		// (d) under the discard policies a log call returns without waiting for the appender,
		// however long the worker is held
		for _, t := range x.Sim.Tasks() {
			if strings.HasPrefix(t.Name, "producer") && t.State != 5 {
				o.violate("waits-for-appender", "C06/conc/log-call-waits-for-appender/"+s.Policy, "producer %s is blocked at %s while the worker is held (policy %s)", t.Name, t.Site, s.Policy)
			}
		}
	}
	counterBefore := sys.counter()
	sys.gateOpen = true
	sys.drain(x)
	x.Sim.Spawn("stopper", sys.stop)
	sys.drain(x)
	judgeDied(x, "C06")
	counter := sys.counter()
	x.Sim.Close()
	_ = counterBefore

	// gather
	var all []*Sub
	all = append(all, pre...)
	overlap := false
	for _, ps := range subs {
		all = append(all, ps...)
	}
	for i, a := range all {
		for _, b := range all[i+1:] {
			if a.Task != b.Task && a.Invoke < b.Return && b.Invoke < a.Return {
				overlap = true
			}
		}
	}
	byID := map[string]*Sub{}
	for _, sb := range all {
		byID[sb.ID] = sb
		if sb.Panic != nil {
			o.violate("submit-panic", "C06/submit-panic/"+sb.PanicAt, "submission %s panicked: %v", sb.ID, sb.Panic)
		}
	}
	items := rec.snapshot()
	deliveredAt := map[string]int{}
	last := map[int]int{}
	for idx, it := range items {
		id, _ := itemID(it)
		sb := byID[id]
		if sb == nil {
			o.violate("unknown-item", "C06/unknown-item-delivered", "appender received %s which nobody submitted", it)
			continue
		}
		if _, dup := deliveredAt[id]; dup {
			o.violate("duplicate-delivery", "C06/duplicate-delivery", "%s delivered twice", id)
		}
		deliveredAt[id] = idx
		// (a) per-producer order
		if prev, ok := last[sb.Task]; ok && sb.Seq < prev {
			o.violate("producer-order", "C06/conc/per-producer-order/"+s.Policy, "items of producer %d arrive out of submission order: seq %d after seq %d", sb.Task, sb.Seq, prev)
		}
		last[sb.Task] = sb.Seq
	}
	accepted := 0
	for _, sb := range all {
		if sb.Returned {
			accepted++
		}
	}
	full := counter > 0 || x.Sim.Probes["blocked:producer"] > 0
	o.Reached = overlap && full
	if int64(len(deliveredAt))+counter != int64(accepted) {
		o.violate("conservation", "C06/conc/conservation/"+s.Policy, "delivered %d + counter %d != submitted %d", len(deliveredAt), counter, accepted)
	}
	// (c1) no overflow possible, no drop allowed
	if accepted <= s.BufferSize && counter != 0 {
		o.violate("drop-without-overflow", "C06/conc/drop-without-overflow/"+s.Policy, "%d submissions fit the buffer of %d, yet %d were discarded", accepted, s.BufferSize, counter)
	}
	if s.Policy == "DiscardOldest" && s.Gate == 2 {
		// (c3) the worker was held for the whole producer phase: it has one item in its hand (the
		// first it took), everything else that was delivered is the final content of the queue.
		// Evictions always take the head of the queue and a producer's items sit in it in
		// submission order, so what survives of one producer is a suffix of what it submitted.
		inHand := ""
		if len(items) > 0 {
			inHand, _ = itemID(items[0])
		}
		newest := map[int]int{} // producer -> lowest delivered seq (ignoring the item in hand)
		for id := range deliveredAt {
			if sb := byID[id]; id != inHand {
				if v, ok := newest[sb.Task]; !ok || sb.Seq < v {
					newest[sb.Task] = sb.Seq
				}
			}
		}
		for _, sb := range all {
			if _, ok := deliveredAt[sb.ID]; ok || !sb.Returned {
				continue
			}
			if low, ok := newest[sb.Task]; ok && sb.Seq > low {
				o.violate("dropped-newer", "C06/conc/discard-oldest-dropped-a-newer-item-of-the-producer", "DiscardOldest with the worker held: %s was dropped although the same producer's older item s%d survived - evictions take the oldest", sb.ID, low)
				break
			}
		}
	}
	switch s.Policy {
	case "DiscardOldest":
		// (c2) an item can only be pushed out by later arrivals: a dropped x needs at least
		// capacity-1 submissions that had not completed before x was invoked
		for _, xsb := range all {
			if !xsb.Returned {
				continue
			}
			if _, ok := deliveredAt[xsb.ID]; ok {
				continue
			}
			later := 0
			for _, y := range all {
				if y != xsb && (y.Return == 0 || y.Return > xsb.Invoke) {
					later++
				}
			}
			// the overflow loop is not atomic: between a producer seeing the buffer full and its
			// eviction the worker may take items, so the evicted head can have fewer than
			// capacity-1 items behind it - by at most the number of worker takes since x was invoked
			takes := 0
			for _, it := range items {
				st := 0
				if it.Ev != nil {
					st = it.Ev.Step
				} else {
					st = it.Wr.Step
				}
				if st > xsb.Invoke {
					takes++
				}
			}
			if later+takes < s.BufferSize-1 {
				o.violate("dropped-newest", "C06/conc/discard-oldest-dropped-a-recent-item", "DiscardOldest dropped %s although only %d submissions were not complete before it was invoked and the worker took %d items since (capacity %d): it cannot have been the oldest", xsb.ID, later, takes, s.BufferSize)
				break
			}
		}
	case "Discard", "Block":
		if s.Policy == "Block" && counter != 0 {
			o.violate("block-discarded", "C06/conc/block-policy-discarded", "Block policy discarded %d items", counter)
		}
		// (b) linearizability against the atomic bounded queue
		var ops []porcupine.Operation
		for _, sb := range all {
			if !sb.Returned {
				continue
			}
			_, d := deliveredAt[sb.ID]
			ops = append(ops, porcupine.Operation{ClientId: sb.Task % 100, Input: qIn{ID: sb.ID}, Call: int64(sb.Invoke), Output: d, Return: int64(sb.Return)})
		}
		// worker takes: the k-th channel receive of the worker happened between the step it
		// resumed from the pre-receive yield and the step it resumed from the post-receive yield
		var pres, posts []int
		for wi, w := range x.Sim.Watched() {
			if wi < sys.watchBase || !strings.HasPrefix(w.Name, "go@") {
				continue
			}
			if strings.HasSuffix(w.Site, ":range") {
				pres = append(pres, w.Step)
			} else if strings.HasSuffix(w.Site, ":range/post") {
				posts = append(posts, w.Step)
			}
		}
		prevDone := 0
		for k, it := range items {
			id, _ := itemID(it)
			entry, done := 0, 0
			if it.Ev != nil {
				entry, done = it.Ev.Step, it.Ev.Done
			} else {
				entry, done = it.Wr.Step, it.Wr.Done
			}
			call, ret := prevDone, entry
			if k < len(pres) && k < len(posts) && pres[k] >= prevDone && posts[k] <= entry && pres[k] <= posts[k] {
				call, ret = pres[k], posts[k]
			}
			ops = append(ops, porcupine.Operation{ClientId: 100, Input: qIn{Take: true, ID: id}, Call: int64(call), Output: true, Return: int64(ret)})
			prevDone = done
		}
		capN := s.BufferSize
		model := porcupine.Model{
			Init: func() interface{} { return "" },
			Step: func(state, input, output interface{}) (bool, interface{}) {
				q := state.(string)
				in := input.(qIn)
				n := strings.Count(q, ",")
				if in.Take {
					if !strings.HasPrefix(q, in.ID+",") {
						return false, state
					}
					return true, q[len(in.ID)+1:]
				}
				if output.(bool) {
					if n >= capN {
						return false, state
					}
					return true, q + in.ID + ","
				}
				return n == capN && s.Policy == "Discard", state
			},
			Equal: func(a, b interface{}) bool { return a.(string) == b.(string) },
		}
		if len(ops) <= 500 {
			nAll, nItems, policy := len(all), len(items), s.Policy
			// outside the bubble: porcupine needs a real clock for its timeout
			x.After = append(x.After, func(o *Outcome) {
				switch porcupine.CheckOperationsTimeout(model, ops, 2*time.Second) {
				case porcupine.Illegal:
					o.violate("not-linearizable", "C06/conc/not-linearizable-as-bounded-queue/"+policy,
						"the history of %d submissions and %d worker takes (policy %s, capacity %d, counter %d) is not a linearization of an atomic bounded FIFO queue", nAll, nItems, policy, capN, counter)
				case porcupine.Unknown:
					o.Probes["porcupine_inconclusive"]++
				default:
					o.Probes["porcupine_ok"]++
				}
			})
		}
	}
}
