package harness

import (
	"encoding/json"
	"fmt"
	"sort"
	"strings"

	log "github.com/go-spring/log"
	"pgregory.net/rapid"
)

// C01 — an event reaches an appender iff its level is enabled on the whole path.

type C01Ev struct {
	Logger int    `json:"logger"` // which logger's tag
	Kind   int    `json:"kind"`   // entry point
	Level  string `json:"level,omitempty"` // Record only
	Bare   bool   `json:"bare,omitempty"`  // no fields at all (recording appenders know such an event by its time)
}

type C01Scn struct {
	Knobs  SimKnobs  `json:"knobs"`
	Sys    *SysSpec  `json:"sys"`
	Events [][]C01Ev `json:"events"` // per client task
}

func (s *C01Scn) knobs() SimKnobs { return s.Knobs }

type c01 struct{}

func init() { register(c01{}) }

func (c01) ID() string    { return "C01" }
func (c01) Level() string { return "exploration" }
func (c01) Rule() string {
	return "case = 1-3 loggers of kinds Logger / AsyncLogger (with or without a logger-level layout, 1-4 references in random declaration order, each with a level string from the grammar ''|MIN|MIN~MAX over built-in and eight user-registered levels (one with code math.MinInt32, two that are second names of an existing code) in random letter case, equal lower bounds included, some references to a Discard appender) or RollingFile (sync/async, with/without separate .wf file), Console, File; logger level strings from the same grammar; configuration rendered in a random spelling; 1-2 client tasks emit 10-40 events through all 15 entry points, Record at every level incl. NONE, MAX-adjacent and custom codes; async kinds are drained by Destroy under the simulated scheduler. Oracle: per reference, delivered set = model set (reference model written from the statement), each exactly once, at the entry point's own level. Literal '~MAX' upper bounds and three-part ranges are not generated (unspecified). Non-trivial = at least one event delivered and at least one filtered out; distinct = distinct (configuration, event list) hashes combined with the context-switch trace hash."
}
func (c01) Decode(raw json.RawMessage) (any, error) {
	var s C01Scn
	err := json.Unmarshal(raw, &s)
	return &s, err
}

var lvlNoMax = []string{"NONE", "VERBOSE", "TRACE", "DEBUG", "INFO", "NOTICE", "WARN", "AUDIT", "ERROR", "PANIC", "CRIT", "FATAL", "TOP", "ALL", "NOTE", "REVIEW", "SHIFTY"}

func randCase(rt *rapid.T, s string) string {
	switch rapid.IntRange(0, 2).Draw(rt, "case") {
	case 0:
		return s
	case 1:
		return strings.ToLower(s)
	}
	b := []byte(strings.ToLower(s))
	if len(b) > 0 {
		b[0] -= 32
	}
	return string(b)
}

func genLevelRange(rt *rapid.T) string {
	switch rapid.IntRange(0, 5).Draw(rt, "range_shape") {
	case 0:
		return ""
	case 1, 2, 3:
		return randCase(rt, rapid.SampledFrom(lvlNoMax).Draw(rt, "lo"))
	}
	return randCase(rt, rapid.SampledFrom(lvlNoMax).Draw(rt, "lo")) + "~" + randCase(rt, rapid.SampledFrom(lvlNoMax).Draw(rt, "hi"))
}

func (c01) Gen(rt *rapid.T, thorough bool) any {
	s := &C01Scn{Knobs: genKnobs(rt), Sys: &SysSpec{Style: genStyle(rt), Props: map[string]string{"enableCaller": "false"}}}
	nl := rapid.IntRange(1, 3).Draw(rt, "loggers")
	for i := 0; i < nl; i++ {
		lg := LogSpec{Name: fmt.Sprintf("lg%d", i), Tags: []string{fmt.Sprintf("tag%d_*", i)}, Level: genLevelRange(rt)}
		lg.Type = rapid.SampledFrom([]string{"Logger", "Logger", "AsyncLogger", "AsyncLogger", "RollingFile", "Console", "File"}).Draw(rt, "ltype")
		switch lg.Type {
		case "Logger", "AsyncLogger":
			if rapid.IntRange(0, 3).Draw(rt, "llayout") == 0 {
				lg.Layout = rapid.SampledFrom([]string{"TextLayout", "JSONLayout"}).Draw(rt, "ll")
			}
			nr := rapid.IntRange(1, 4).Draw(rt, "refs")
			for j := 0; j < nr; j++ {
				name := fmt.Sprintf("a%dr%d", i, j)
				if nr > 1 && rapid.IntRange(0, 5).Draw(rt, "discard_ref") == 0 {
					// a reference to a Discard appender: nothing to observe there, but it takes part
					// in the chaining of upper bounds and sits between the other references
					name = fmt.Sprintf("d%dr%d", i, j)
					s.Sys.Apps = append(s.Sys.Apps, AppSpec{Name: name, Type: "Discard"})
					lg.Refs = append(lg.Refs, RefSpec{Ref: name, Level: genLevelRange(rt)})
					continue
				}
				s.Sys.Apps = append(s.Sys.Apps, AppSpec{Name: name, Type: "Rec"})
				lg.Refs = append(lg.Refs, RefSpec{Ref: name, Level: genLevelRange(rt)})
			}
			if rapid.IntRange(0, 5).Draw(rt, "dup_ref") == 0 {
				// one appender referenced twice by the same logger, for two disjoint explicit ranges
				lg.Refs = []RefSpec{{Ref: fmt.Sprintf("a%dr0", i), Level: "TRACE~INFO"}, {Ref: fmt.Sprintf("a%dr0", i), Level: "ERROR~FATAL"}}
				if nr > 1 && !strings.HasPrefix(s.Sys.Apps[len(s.Sys.Apps)-1].Name, "d") {
					lg.Refs = append(lg.Refs, RefSpec{Ref: s.Sys.Apps[len(s.Sys.Apps)-1].Name, Level: "INFO~ERROR"})
				}
				if !hasApp(s.Sys.Apps, fmt.Sprintf("a%dr0", i)) {
					s.Sys.Apps = append(s.Sys.Apps, AppSpec{Name: fmt.Sprintf("a%dr0", i), Type: "Rec"})
				}
			}
			if lg.Type == "AsyncLogger" {
				lg.BufferSize = rapid.SampledFrom([]int{0, 100, 500}).Draw(rt, "bufsize")
				lg.Policy = rapid.SampledFrom([]string{"", "Block", "Discard"}).Draw(rt, "pol")
			}
		case "RollingFile":
			lg.FileDir, lg.FileName, lg.Rotation = "/logs", fmt.Sprintf("roll%d.log", i), "h"
			lg.Separate = rapid.Bool().Draw(rt, "sep")
			lg.Async = rapid.Bool().Draw(rt, "async")
			if rapid.Bool().Draw(rt, "rlayout") {
				lg.Layout = rapid.SampledFrom([]string{"TextLayout", "JSONLayout"}).Draw(rt, "rl")
			}
		case "File":
			lg.FileDir, lg.FileName = "/logs", fmt.Sprintf("file%d.log", i)
		}
		s.Sys.Logs = append(s.Sys.Logs, lg)
	}
	if len(s.Sys.Apps) == 0 {
		s.Sys.Apps = append(s.Sys.Apps, AppSpec{Name: "unused", Type: "Discard"})
	}
	nt := rapid.IntRange(1, 2).Draw(rt, "clients")
	maxEv := 20
	if thorough {
		maxEv = 40
	}
	for t := 0; t < nt; t++ {
		n := rapid.IntRange(3, maxEv).Draw(rt, "nev")
		var evs []C01Ev
		for i := 0; i < n; i++ {
			// logger index nl = a registered tag that no configured logger lists: no root is configured,
			// so the built-in console logger serves it, at every level
			e := C01Ev{Logger: rapid.IntRange(0, nl-1).Draw(rt, "evlogger"), Kind: rapid.IntRange(0, 14).Draw(rt, "evkind")}
			if rapid.IntRange(0, 9).Draw(rt, "unmatched") == 0 {
				e.Logger = nl
			}
			if rapid.IntRange(0, 2).Draw(rt, "force_record") == 0 {
				e.Kind = 14
			}
			if e.Kind == 14 {
				e.Level = rapid.SampledFrom(levelNames).Draw(rt, "evlevel")
			}
			if e.Logger == nl {
				evs = append(evs, e)
				continue
			}
			if lg := s.Sys.Logs[e.Logger]; (lg.Type == "Logger" || lg.Type == "AsyncLogger") && lg.Layout == "" {
				e.Bare = rapid.IntRange(0, 7).Draw(rt, "bare") == 0
			}
			evs = append(evs, e)
		}
		s.Events = append(s.Events, evs)
	}
	return s
}

func hasApp(apps []AppSpec, name string) bool {
	for _, a := range apps {
		if a.Name == name {
			return true
		}
	}
	return false
}

func (c01) Run(x *Exec, scn any) {
	s := scn.(*C01Scn)
	o := x.Out
	x.FS.MkdirAll("/logs")
	installHooks(true, false, false)
	tags := make([]*log.Tag, len(s.Sys.Logs)+1)
	tagNames := make([]string, len(s.Sys.Logs)+1)
	for i := range s.Sys.Logs {
		tagNames[i] = fmt.Sprintf("tag%d_x", i)
		tags[i] = log.RegisterTag(tagNames[i])
	}
	tagNames[len(s.Sys.Logs)] = "zzun_x"
	tags[len(s.Sys.Logs)] = log.RegisterTag("zzun_x")
	cfg := s.Sys.Render()
	var err error
	var pv any
	var st string
	x.do("refresh", func() { pv, st = call(func() { err = log.Refresh(cfg) }) })
	if pv != nil {
		o.violate("refresh-panic", "C01/refresh-panic/"+panicSite(st), "Refresh panicked on a valid configuration: %v\n%v", pv, cfg)
		return
	}
	if err != nil {
		o.violate("refresh-error", "C01/refresh-error", "Refresh rejected a valid configuration: %v\n%v", err, cfg)
		return
	}
	subs := make([][]*Submitted, len(s.Events))
	evOf := map[string]C01Ev{}
	for t := range s.Events {
		x.Sim.Spawn(fmt.Sprintf("client%d", t), func() {
			for i, e := range s.Events[t] {
				lvl := log.InfoLevel
				if e.Kind == 14 {
					lvl = levelByName(e.Level)
				}
				sb := emit(t, i, tags[e.Logger], tagNames[e.Logger], EvOp{Kind: e.Kind, Size: 4, Bare: e.Bare}, lvl)
				if e.Kind == 14 {
					sb.Level = strings.ToUpper(e.Level)
				}
				subs[t] = append(subs[t], sb)
				evOf[sb.ID] = e
			}
		})
	}
	res := x.Sim.Run(nil)
	if st := x.clientsStuck(); len(st) > 0 || res.StepCap {
		o.violate("log-call-blocked", "C01/log-call-blocked", "log calls did not return: %v", st)
		return
	}
	x.Sim.Spawn("stopper", log.Destroy)
	res = x.Sim.Run(nil)
	if st := x.clientsStuck(); len(st) > 0 || res.StepCap {
		o.violate("destroy-blocked", "C01/destroy-blocked", "Destroy did not return: %v", st)
	}
	judgeDied(x, "C01")
	x.Sim.Close()

	var all []*Submitted
	for _, ts := range subs {
		all = append(all, ts...)
	}
	for _, e := range all {
		if e.Panic != nil {
			o.violate("log-call-panic", "C01/log-call-panic/"+e.PanicAt, "log call %s panicked: %v", e.ID, e.Panic)
		}
	}
	bareByTime := map[int64]string{}
	for _, e := range all {
		if len(e.Fields) == 0 {
			bareByTime[e.Time.UnixNano()] = e.ID
		}
	}
	files := x.FS.AllFiles()
	stdoutIDs := map[string]int{}
	for _, w := range x.FS.StdoutWrites() {
		for _, m := range idInLine.FindAllSubmatch(w.Data, -1) {
			stdoutIDs[string(m[1])]++
		}
	}
	delivered, filtered := 0, 0
	for li, lg := range s.Sys.Logs {
		lr, _ := modelRange(lg.Level)
		type sink struct {
			name string
			want func(code int32) bool
			got  map[string]int
			lvl  map[string]string
		}
		var sinks []sink
		switch lg.Type {
		case "Logger", "AsyncLogger":
			rr := modelRefRanges(lg.Refs)
			for j, r := range lg.Refs {
				if strings.HasPrefix(r.Ref, "d") {
					continue // Discard appender
				}
				first := true
				for k := 0; k < j; k++ {
					if lg.Refs[k].Ref == r.Ref {
						first = false
					}
				}
				if !first {
					continue // an appender referenced twice is one sink: judged with its first reference
				}
				got, lvl := map[string]int{}, map[string]string{}
				for _, it := range getRec(r.Ref).snapshot() {
					id, _ := itemID(it)
					if it.Ev != nil && it.Ev.ID == "" {
						id = bareByTime[it.Ev.TimeNs] // an event without fields is known by its (hook) time
					}
					got[id]++
					if it.Ev != nil {
						lvl[id] = it.Ev.LevelName
					} else if lg.Layout == "" {
						o.violate("write-instead-of-append", "C01/event-delivered-as-raw-write", "reference %s received a raw write for an event although the logger has no layout", r.Ref)
					}
				}
				rng := rr[j]
				var mine []mRange // the (disjoint) ranges of all references to this appender
				for k := range lg.Refs {
					if lg.Refs[k].Ref == r.Ref {
						mine = append(mine, rr[k])
					}
				}
				sinks = append(sinks, sink{name: fmt.Sprintf("%s(ref %q of %s, effective [%d,%d), %d references)", r.Ref, r.Level, lg.Name, rng.Min, rng.Max, len(mine)), want: func(c int32) bool {
					for _, m := range mine {
						if m.has(c) {
							return true
						}
					}
					return false
				}, got: got, lvl: lvl})
			}
		case "Console":
			sinks = append(sinks, sink{name: "console of " + lg.Name, want: func(int32) bool { return true }, got: stdoutIDs})
		case "File":
			sinks = append(sinks, sink{name: lg.FileName, want: func(int32) bool { return true }, got: idsInFiles(files, "/logs/"+lg.FileName, "")})
		case "RollingFile":
			if lg.Separate {
				sinks = append(sinks, sink{name: lg.FileName + ".<ts>", want: func(c int32) bool { return c < 400 }, got: idsInFiles(files, "/logs/"+lg.FileName+".", "/logs/"+lg.FileName+".wf.")})
				sinks = append(sinks, sink{name: lg.FileName + ".wf.<ts>", want: func(c int32) bool { return c >= 400 }, got: idsInFiles(files, "/logs/"+lg.FileName+".wf.", "")})
			} else {
				sinks = append(sinks, sink{name: lg.FileName + ".<ts>", want: func(int32) bool { return true }, got: idsInFiles(files, "/logs/"+lg.FileName+".", "")})
			}
		}
		for _, sk := range sinks {
			for _, e := range all {
				if !e.Returned || evOf[e.ID].Logger != li {
					continue
				}
				code := levelCodes[strings.ToUpper(e.Level)]
				want := lr.has(code) && sk.want(code)
				got := sk.got[e.ID]
				switch {
				case want && got == 1:
					delivered++
					if l, ok := sk.lvl[e.ID]; ok && l != strings.ToUpper(e.Level) {
						o.violate("wrong-level", "C01/entry-point-emits-wrong-level/"+entryNames[evOf[e.ID].Kind], "%s emitted through %s arrived with level %s, expected %s", e.ID, entryNames[evOf[e.ID].Kind], l, e.Level)
					}
				case want && got == 0:
					o.violate("not-delivered", "C01/enabled-event-not-delivered/"+lg.Type, "event %s (level %s=%d via %s) is enabled for logger %s (level %q) and %s but was not delivered", e.ID, e.Level, code, entryNames[evOf[e.ID].Kind], lg.Name, lg.Level, sk.name)
				case want && got > 1:
					o.violate("delivered-twice", "C01/delivered-more-than-once/"+lg.Type, "event %s delivered %d times to %s", e.ID, got, sk.name)
				case !want && got > 0:
					o.violate("wrongly-delivered", "C01/disabled-event-delivered/"+lg.Type, "event %s (level %s=%d) is NOT enabled for logger %s (level %q) / %s but was delivered", e.ID, e.Level, code, lg.Name, lg.Level, sk.name)
				default:
					filtered++
				}
			}
			if lg.Type == "Console" {
				continue
			}
			for id := range sk.got {
				if ev, ok := evOf[id]; ok && ev.Logger != li {
					o.violate("cross-logger", "C01/delivered-to-other-logger", "event %s logged through the tag of logger %d reached %s", id, ev.Logger, sk.name)
				}
			}
		}
	}
	for _, e := range all {
		if !e.Returned || evOf[e.ID].Logger != len(s.Sys.Logs) {
			continue
		}
		code := levelCodes[strings.ToUpper(e.Level)]
		want := code >= 0 && code < 999
		if got := stdoutIDs[e.ID]; (want && got != 1) || (!want && got != 0) {
			o.violate("not-delivered", "C01/unlisted-tag-not-served-by-the-built-in-logger", "event %s (level %s=%d via %s) was logged through a tag no configured logger lists (no root configured): the built-in console logger serves it, expected %v, found %d lines", e.ID, e.Level, code, entryNames[evOf[e.ID].Kind], want, got)
		} else if want {
			delivered++
		}
	}
	o.Reached = delivered > 0 && filtered > 0
	o.ScnDistinct = true

	var keys []string
	for _, lg := range s.Sys.Logs {
		keys = append(keys, lg.Type)
	}
	sort.Strings(keys)
	x.Sim.NoteState(strings.Join(keys, "+") + fmt.Sprint(s.Sys.Style.KeyCase))
}

// idsInFiles counts event ids in all files whose path starts with prefix (and not with exclude).
func idsInFiles(files map[string][]byte, prefix, exclude string) map[string]int {
	out := map[string]int{}
	for p, data := range files {
		if !strings.HasPrefix(p, prefix) || (exclude != "" && strings.HasPrefix(p, exclude)) {
			continue
		}
		for _, m := range idInLine.FindAllSubmatch(data, -1) {
			out[string(m[1])]++
		}
	}
	return out
}
