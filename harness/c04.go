package harness

import (
	"encoding/json"
	"fmt"

	"pgregory.net/rapid"
)

// C04 — async logger: delivered + discarded = submitted, nothing twice.

type c04 struct{}

func init() { register(c04{}) }

func (c04) ID() string    { return "C04" }
func (c04) Level() string { return "exploration" }
func (c04) Rule() string {
	return "case = AsyncLogger (constructed directly or through Refresh with a randomly spelled configuration), policy in {Discard, DiscardOldest, Block}, bufferSize 100..400, 1-3 recording appender references with chained level ranges, optional logger-level layout, 1-8 (thorough: 1-32) producer tasks submitting a mix of events at enabled and disabled levels and raw writes, a worker that is free, starved by the scheduler, slow, or held at a gate the scheduler opens item by item; Stop is called after all producers returned. Non-trivial = the buffer was observed full (discard counter > 0, or a Block producer natively blocked) AND at least one preemption; distinct = distinct context-switch trace hashes."
}
func (c04) Decode(raw json.RawMessage) (any, error) {
	var s AsyncScn
	err := json.Unmarshal(raw, &s)
	return &s, err
}

func (c04) Gen(rt *rapid.T, thorough bool) any {
	s := genAsyncBase(rt, thorough)
	maxProd := 8
	if thorough {
		maxProd = 32
	}
	total := rapid.SampledFrom([]int{12, 60, 160, 320, 320, 480}).Draw(rt, "total")
	if thorough {
		total = rapid.SampledFrom([]int{12, 160, 320, 600, 1000}).Draw(rt, "total_t")
	}
	genProducers(rt, s, maxProd, total, 2)
	s.Gate = rapid.SampledFrom([]int{0, 1, 1, 2}).Draw(rt, "gate") // 2 = held until the producers are done
	if s.Policy == "Block" && s.Gate == 2 {
		s.Gate = 1 // Block producers need the worker to make progress
	}
	s.Slow = rapid.SampledFrom([]int{0, 0, 2}).Draw(rt, "slow")
	for i, n := 0, rapid.IntRange(0, 2).Draw(rt, "nclock"); i < n; i++ {
		s.Clock = append(s.Clock, rapid.SampledFrom([]int{1, 1500, 61000}).Draw(rt, "clock_ms"))
	}
	if rapid.Bool().Draw(rt, "starve") {
		s.Knobs.Starve = []string{"go@plugin_logger"}
	}
	scaleOdds := 60
	if thorough {
		scaleOdds = 12
	}
	if rapid.IntRange(0, scaleOdds).Draw(rt, "default_scale") == 0 {
		// the declared default capacity (bufferSize omitted = 10000) is only reached at scale
		s.BufferSize, s.DefaultSize, s.Gate, s.Slow = 10000, true, 2, 0
		if s.Policy == "Block" {
			s.Gate = 1
		}
		s.Refs = []RefSpec{{Ref: "rec0"}}
		s.Knobs.Starve, s.Clock = nil, nil
		s.Producers = nil
		np := rapid.IntRange(1, 3).Draw(rt, "scale_producers")
		for p := 0; p < np; p++ {
			var ops []AOp
			for i := 0; i < 10120/np+1; i++ {
				ops = append(ops, AOp{Lvl: "ERROR", Raw: i%7 == 0})
			}
			s.Producers = append(s.Producers, ops)
		}
		return s
	}
	if rapid.IntRange(0, 7).Draw(rt, "slow_sink4") == 0 {
		// a sink that takes simulated time per item: whatever Stop has to wait for, once it has
		// returned every accepted item is delivered or counted
		s.SleepMs = rapid.SampledFrom([]int{120, 400, 5000}).Draw(rt, "sleep_ms4")
		if s.SleepMs == 5000 {
			s.Policy, s.BufferSize = "Block", 100 // a writer waits as long as it takes for a slot
		}
		s.Gate, s.Slow, s.Knobs.AutoAdvS, s.Knobs.Starve, s.Clock = 0, 0, 1200, nil, nil
		s.Producers = nil
		np := rapid.IntRange(1, 3).Draw(rt, "slow_producers")
		for p := 0; p < np; p++ {
			var ops []AOp
			for i := 0; i < map[bool]int{false: 90, true: 104}[s.SleepMs == 5000]/np+5; i++ {
				ops = append(ops, AOp{Lvl: "ERROR", Raw: (p+i)%6 == 0, Size: 2})
			}
			s.Producers = append(s.Producers, ops)
		}
		return s
	}
	if rapid.IntRange(0, 4).Draw(rt, "contention") == 0 {
		// contention preset: many producers hammering a full buffer whose worker is held, with a
		// scheduling choice at every step - the overflow paths race against each other
		s.Policy = rapid.SampledFrom([]string{"DiscardOldest", "DiscardOldest", "Discard"}).Draw(rt, "contention_policy")
		s.Gate, s.Knobs.Dense, s.Knobs.Strategy, s.Knobs.Starve = 2, true, 0, nil
		s.Producers = nil
		np := rapid.IntRange(4, maxProd).Draw(rt, "contention_producers")
		for p := 0; p < np; p++ {
			var ops []AOp
			for i := 0; i < 400/np+8; i++ {
				ops = append(ops, AOp{Lvl: "ERROR", Raw: (p+i)%5 == 0, Size: 2})
			}
			s.Producers = append(s.Producers, ops)
		}
	}
	return s
}

func (c04) Run(x *Exec, scn any) {
	s := scn.(*AsyncScn)
	o := x.Out
	sys := buildAsync(x, s)
	if sys.err != nil {
		o.violate("start-error", "C04/start-error", "a valid async configuration was rejected: %v", sys.err)
		return
	}
	sys.gateEnvs(x, true)
	clockEnvMs(x, s.Clock)
	subs := make([][]*Sub, len(s.Producers))
	sys.spawnProducers(x, subs)
	// the phase ends the moment the last producer returns: whatever is still
	// buffered or in the worker's hand stays there for Stop to deal with
	res := x.Sim.Run(x.harnessTasksDone)
	if res.StepCap {
		o.violate("livelock", "C04/producer-livelock/"+s.Policy, "producers did not finish within the step cap: %+v", res.Blocked)
		return
	}
	for _, t := range x.Sim.Tasks() {
		if !t.Daemon && t.State != 5 && t.Panic == nil {
			// a producer still blocked although every gate was opened whenever the run got stuck
			o.violate("producer-stuck", "C04/producer-stuck/"+s.Policy, "producer %s is still blocked at %s after the worker was let through", t.Name, t.Site)
			return
		}
	}
	_ = sys.counter() // a monitoring read in mid-life: reading the counter does not change it
	sys.gateOpen = true
	x.Sim.Spawn("stopper", sys.stop)
	sys.drain(x)
	stopped := true
	for _, t := range x.Sim.Tasks() {
		if t.Name == "stopper" && t.State != 5 {
			stopped = false
		}
	}
	judgeDied(x, "C04")
	counter := sys.counter()
	x.Sim.Close()
	o.Reached = (counter > 0 || x.Sim.Probes["blocked:producer"] > 0) && x.Sim.Preemptions() > 0
	if !stopped {
		// "once Stop has returned" is the premise: termination itself is C05
		o.Notes = append(o.Notes, "stop did not return; conservation not judged")
		return
	}
	judgeConservation(x, sys, "C04", subs, counter)
}

// judgeDied reports panics: in library goroutines (a process crash in
// production) and in harness tasks (harness bug).
func judgeDied(x *Exec, pid string) {
	for _, t := range x.Sim.Died() {
		if t.Daemon {
			x.Out.violate("library-goroutine-panic", pid+"/library-goroutine-panic/"+panicSite(t.Stack), "library goroutine %s panicked: %v", t.Name, t.Panic)
		} else if t.Name == "stopper" {
			x.Out.violate("stop-panic", pid+"/stop-panic/"+panicSite(t.Stack), "Stop/Destroy panicked: %v", t.Panic)
		} else {
			panic(fmt.Sprintf("harness: task %s died: %v\n%s", t.Name, t.Panic, t.Stack))
		}
	}
}

// judgeConservation: every accepted submission is delivered exactly once to
// each reference that wants it, or counted exactly once as discarded.
func judgeConservation(x *Exec, sys *asyncSys, pid string, subs [][]*Sub, counter int64) {
	o := x.Out
	byID := map[string]*Sub{}
	accepted := 0
	for _, ps := range subs {
		for _, sb := range ps {
			byID[sb.ID] = sb
			if sb.Panic != nil {
				o.violate("submit-panic", pid+"/submit-panic/"+sb.PanicAt, "submission %s panicked: %v", sb.ID, sb.Panic)
			}
			if sys.accepted(sb) {
				accepted++
			}
		}
	}
	delivered := map[string]int{} // id -> number of references that received it
	emptiesDelivered, emptiesAccepted := 0, 0
	for _, ps := range subs {
		for _, sb := range ps {
			if sb.Empty && sys.accepted(sb) {
				emptiesAccepted++
			}
		}
	}
	for i, r := range sys.recs {
		seen := map[string]int{}
		for _, it := range r.snapshot() {
			if it.Wr != nil && len(it.Wr.Data) == 0 {
				emptiesDelivered++ // empty raw writes have no identity: settled by count
				continue
			}
			id, _ := itemID(it)
			seen[id]++
			sb := byID[id]
			switch {
			case sb == nil:
				o.violate("unknown-item", pid+"/unknown-item-delivered", "reference %d received an item nobody submitted: %s", i, it)
			case !sys.accepted(sb):
				o.violate("disabled-delivered", pid+"/disabled-level-delivered", "reference %d received %s although level %s is outside the logger's range %q", i, id, sb.Level, sys.s.Level)
			case !sys.wants(i, sb):
				o.violate("wrong-reference", pid+"/delivered-to-wrong-reference", "reference %d (range [%d,%d)) received %s of level %s", i, sys.refRanges[i].Min, sys.refRanges[i].Max, id, sb.Level)
			case seen[id] > 1:
				o.violate("duplicate-delivery", pid+"/duplicate-delivery", "reference %d received %s %d times", i, id, seen[id])
			default:
				delivered[id]++
			}
			if it.Ev != nil && it.Ev.Mutated {
				o.violate("event-recycled", pid+"/event-recycled-while-held", "event %s changed while the appender still held it", id)
			}
		}
	}
	nDelivered := 0
	if emptiesDelivered > emptiesAccepted {
		o.violate("duplicate-delivery", pid+"/more-empty-writes-delivered-than-submitted", "%d empty raw writes delivered, %d submitted", emptiesDelivered, emptiesAccepted)
	}
	nDelivered += min(emptiesDelivered, emptiesAccepted)
	for _, ps := range subs {
		for _, sb := range ps {
			if !sys.accepted(sb) || sb.Empty {
				continue
			}
			want := 0
			for i := range sys.recs {
				if sys.wants(i, sb) {
					want++
				}
			}
			got := delivered[sb.ID]
			switch {
			case got == want && want > 0:
				nDelivered++
			case got == 0:
				// discarded (or silently dropped): settled by the counter equation
			default:
				o.violate("partial-delivery", pid+"/partial-delivery", "%s reached %d of %d references", sb.ID, got, want)
			}
		}
	}
	kind := "events-only"
	for _, ps := range subs {
		for _, sb := range ps {
			if sb.Raw && sys.accepted(sb) && delivered[sb.ID] == 0 {
				kind = "raw-write-undelivered"
			}
		}
	}
	if int64(nDelivered)+counter != int64(accepted) {
		o.violate("conservation", fmt.Sprintf("%s/conservation/%s/%s", pid, sys.s.Policy, kind),
			"delivered %d + discard counter %d != %d submitted at an enabled level (policy %s, capacity %d)", nDelivered, counter, accepted, sys.s.Policy, sys.capacity)
	}
	if sys.s.Policy == "Block" && counter != 0 {
		o.violate("block-discarded", pid+"/block-policy-counted-discards", "Block policy but discard counter is %d", counter)
	}
}
