package harness

import (
	"context"
	"fmt"
	"runtime"
	"strings"
	"sync"
	"time"

	log "github.com/go-spring/log"
	"github.com/go-spring/log/verifsim"
)

// EvOp is one logging call a client task makes.
type EvOp struct {
	Kind int `json:"kind"` // entry point, see entryNames
	Size int `json:"size"` // filler bytes
	Ctx  int `json:"ctx"`  // 0 none, 1 ctx string, 2 ctx fields, 3 both
	Bare bool `json:"bare,omitempty"` // the call passes no fields at all (lazy generators return nil): still an event
}

var entryNames = []string{"Info", "Warn", "Error", "Infof", "Errorf", "Trace", "Debug", "Panic", "Fatal", "Tracef", "Debugf", "Warnf", "Panicf", "Fatalf", "Record"}

var entryLevels = []string{"INFO", "WARN", "ERROR", "INFO", "ERROR", "TRACE", "DEBUG", "PANIC", "FATAL", "TRACE", "DEBUG", "WARN", "PANIC", "FATAL", ""}

// Submitted is what the harness knows about one logging call.
type Submitted struct {
	ID       string
	Task     int
	Seq      int
	Level    string
	Tag      string
	Time     time.Time
	File     string
	Line     int
	Fields   []log.Field
	CtxStr   string
	CtxFlds  []log.Field
	Invoke   int // scheduler step at call
	Return   int // scheduler step at return (0 = did not return)
	Panic    any
	PanicAt  string
	Returned bool
}

type ctxKeyT struct{}

var ctxKey ctxKeyT

type evKey struct {
	task, seq int
	ctxMode   int
}

// hook counters
type hookStats struct {
	mu                      sync.Mutex
	timeCalls, strCalls, fldCalls map[evKey]int
	genCalls                map[evKey]int
	byTask                  map[evKey][]string // names of the tasks that invoked a hook for this call
	foreign                 []string           // hook invocations with a context that carries no call identity at all
	ctxBad                  map[evKey][]string // hook invocations whose context is not in the state the caller's context is in
}

// noteCtx compares the state of the context a hook was handed with the state of the context
// the caller passed (live, cancelled, past its deadline).
func (h *hookStats) noteCtx(hook string, ctx context.Context, k evKey, ok bool) {
	if !ok {
		h.foreign = append(h.foreign, hook)
		return
	}
	var wantErr error
	switch {
	case k.ctxMode&4 != 0:
		wantErr = context.Canceled
	case k.ctxMode&8 != 0:
		wantErr = context.DeadlineExceeded
	}
	_, hasDL := ctx.Deadline()
	wantDL := k.ctxMode&4 == 0 && k.ctxMode&8 != 0
	if ctx.Err() != wantErr || hasDL != wantDL {
		h.ctxBad[k] = append(h.ctxBad[k], fmt.Sprintf("%s saw Err()=%v deadline=%v, the caller's context has Err()=%v deadline=%v", hook, ctx.Err(), hasDL, wantErr, wantDL))
	}
}

func (h *hookStats) noteTask(k evKey) {
	_, name := verifsim.CurrentTask()
	h.byTask[k] = append(h.byTask[k], name)
}

var hooks = &hookStats{}

func resetHooks() {
	hooks.mu.Lock()
	hooks.timeCalls, hooks.strCalls, hooks.fldCalls, hooks.genCalls = map[evKey]int{}, map[evKey]int{}, map[evKey]int{}, map[evKey]int{}
	hooks.byTask = map[evKey][]string{}
	hooks.foreign, hooks.ctxBad = nil, map[evKey][]string{}
	ctxSharedMu.Lock()
	ctxShared = map[int][]log.Field{}
	ctxSharedMu.Unlock()
	hooks.mu.Unlock()
}

var evEpoch = time.Date(2024, 2, 29, 12, 0, 0, 0, time.UTC)

// evTime is the (hook) timestamp of an event. Events of different tasks and
// consecutive events of one task deliberately share wall-clock seconds, as
// they do under load: per-second caches only go wrong on a hit.
func evTime(k evKey) time.Time {
	if k.ctxMode&16 != 0 {
		return time.Time{} // whatever the hook returns is the record's time - also the zero time
	}
	return evEpoch.Add(time.Duration(k.task%2)*time.Hour + time.Duration(k.seq/2)*time.Second + time.Duration((k.task*37+k.seq*11)%1000)*time.Millisecond)
}

func ctxString(k evKey) string { return fmt.Sprintf("trace-%d-%d", k.task, k.seq) }

// ctxFields returns the context fields of the "request" an event belongs to. Like real
// request-scoped metadata it is ONE slice per request, handed to every event of that
// request (several tasks share a request), and it has spare capacity: the library may
// read it but must not append into it.
func ctxFields(k evKey) []log.Field {
	if k.ctxMode&32 != 0 {
		// the application's own encoder fails for this request: the log call panics (the library
		// does not recover application panics), the caller recovers - and life goes on
		return []log.Field{log.String("trace_id", "doomed"), log.Array("boom", panicArr{})}
	}
	if k.ctxMode&64 != 0 {
		// a very long application-defined array: formatting this one event takes as long as
		// thousands of ordinary log calls of the other tasks
		return []log.Field{log.String("trace_id", "slowpoke"), log.Array("span", longSpan)}
	}
	req := k.task % 2
	ctxSharedMu.Lock()
	defer ctxSharedMu.Unlock()
	if ctxShared[req] == nil {
		s := make([]log.Field, 2, 16)
		// the second field is of an application-defined array type: its encoder is application
		// code that runs in the middle of formatting, and it may be preempted there
		s[0], s[1] = log.String("trace_id", fmt.Sprintf("trREQ%04d", req)), log.Array("span", spanIDs{int64(7000 + req), 1})
		if req == 1 {
			// application keys are free to coincide with the names a layout uses for its own members
			s[0], s[1] = log.String("level", fmt.Sprintf("trREQ%04d", req)), log.Int("tag", 7000+req)
		}
		ctxShared[req] = s
	}
	return ctxShared[req]
}

// panicArr is an application-defined array value whose encoder panics.
type panicArr struct{}

func (panicArr) EncodeArray(enc log.Encoder) {
	enc.AppendInt64(1)
	verifsim.Yield("app.EncodeArray")
	panic("application encoder failed")
}

var longSpan = func() spanIDs {
	a := make(spanIDs, 60000)
	for i := range a {
		a[i] = int64(i % 7)
	}
	return a
}()

// spanIDs is an application-defined array value.
type spanIDs []int64

func (a spanIDs) EncodeArray(enc log.Encoder) {
	for _, v := range a {
		verifsim.Yield("app.EncodeArray")
		enc.AppendInt64(v)
	}
}

var (
	ctxSharedMu sync.Mutex
	ctxShared   = map[int][]log.Field{}
)

// installHooks sets the three context hooks (counting, keyed by context value).
func installHooks(timeHook, strHook, fldHook bool) {
	resetHooks()
	if timeHook {
		log.TimeNow = func(ctx context.Context) time.Time {
			k, ok := ctx.Value(ctxKey).(evKey)
			hooks.mu.Lock()
			hooks.noteCtx("time hook", ctx, k, ok)
			hooks.timeCalls[k]++
			hooks.noteTask(k)
			hooks.mu.Unlock()
			return evTime(k)
		}
	}
	if strHook {
		log.StringFromContext = func(ctx context.Context) string {
			k, ok := ctx.Value(ctxKey).(evKey)
			hooks.mu.Lock()
			hooks.noteCtx("context-string hook", ctx, k, ok)
			hooks.strCalls[k]++
			hooks.noteTask(k)
			hooks.mu.Unlock()
			if k.ctxMode&1 != 0 {
				return ctxString(k)
			}
			return ""
		}
	}
	if fldHook {
		log.FieldsFromContext = func(ctx context.Context) []log.Field {
			k, ok := ctx.Value(ctxKey).(evKey)
			hooks.mu.Lock()
			hooks.noteCtx("context-fields hook", ctx, k, ok)
			hooks.fldCalls[k]++
			hooks.noteTask(k)
			hooks.mu.Unlock()
			if k.ctxMode&2 != 0 {
				return ctxFields(k)
			}
			return nil
		}
	}
}

// fillerAlphabet deliberately contains characters every encoder path treats
// differently: control characters that become \u00XX, the short escapes, quote,
// backslash, DEL, multi-byte runes and an invalid UTF-8 byte.
var fillerAlphabet = []string{"a", "b", "c", "d", "e", "f", "g", "h", "i", "j", "k", "l", "m", "n", "o", "p", "q", "r", "s", "t", "u", "v", "w", "x", "y", "z",
	"A", "B", "C", "Z", "0", "1", "2", "9", " ", "=", "|", "\x01", "\x02", "\x07", "\x1b", "\x1f", "\t", "\n", "\r", "\"", "\\", "\x7f", "é", "世", "\xff"}

func filler(task, seq, n int) string {
	var b strings.Builder
	b.Grow(n)
	x := uint32(task*7919 + seq*104729 + 17)
	plain := (task+seq)%3 != 0 // two thirds of the payloads stay alphanumeric
	for b.Len() < n {
		x = x*1664525 + 1013904223
		if plain {
			b.WriteByte("abcdefghijklmnopqrstuvwxyzABCDEFGHIJKLMNOPQRSTUVWXYZ0123456789"[(x>>16)%62])
		} else {
			b.WriteString(fillerAlphabet[int(x>>16)%len(fillerAlphabet)])
		}
	}
	return b.String()
}

func payloadFields(id string, task, seq, size int) []log.Field {
	pad := filler(task, seq, size)
	fs := []log.Field{log.String("id", id), log.Int("len", size), log.String("pad", pad)}
	if seq%3 == 1 {
		fs = append(fs, log.Object("o", log.Int("a", seq), log.Strings("l", []string{"x", id})))
	}
	if (task+seq)%4 == 2 {
		// a value rendered through reflection (encoding/json), of a size that depends on the call
		fs = append(fs, log.Reflect("r", map[string]any{"of": strings.ToUpper(id), "pad": pad, "n": []int{task, seq}}))
	}
	return fs
}

// emit performs one logging call through the entry point op.Kind and returns
// what was submitted. The call and runtime.Caller sit on one source line so
// that the expected file:line is known exactly.
// emitSharedCtx, when set, is the one context object every call of the case passes (a request
// context shared by the goroutines working on the request).
var emitSharedCtx context.Context

func emit(task, seq int, tag *log.Tag, tagName string, op EvOp, level log.Level) *Submitted {
	k := evKey{task: task, seq: seq, ctxMode: op.Ctx}
	ctx := callerContext(k, op.Ctx)
	if emitSharedCtx != nil {
		ctx = emitSharedCtx
		k, _ = ctx.Value(ctxKey).(evKey)
		op.Ctx = k.ctxMode
	}
	id := fmt.Sprintf("t%ds%d", task, seq)
	s := &Submitted{ID: id, Task: task, Seq: seq, Tag: tagName, Time: evTime(k), Level: entryLevels[op.Kind]}
	if op.Ctx&1 != 0 {
		s.CtxStr = ctxString(k)
	}
	if op.Ctx&2 != 0 {
		s.CtxFlds = ctxFields(k)
	}
	fields := payloadFields(id, task, seq, op.Size)
	msg := "id=" + id + "|" + filler(task, seq, op.Size)
	gen := func() []log.Field {
		hooks.mu.Lock()
		hooks.genCalls[k]++
		hooks.mu.Unlock()
		return fields
	}
	if op.Bare && (op.Kind <= 2 || op.Kind == 5 || op.Kind == 6 || op.Kind == 7 || op.Kind == 8 || op.Kind == 14) {
		fields = nil
	}
	s.Fields = fields
	s.Invoke, _ = stepTask()
	var pv any
	var st string
	// every case: `pv, st = call(func() { log.X(...) })` on ONE line
	switch op.Kind {
	case 0:
		pv, st = call(func() { log.Info(mark(ctx, s), tag, fields...) })
	case 1:
		pv, st = call(func() { log.Warn(mark(ctx, s), tag, fields...) })
	case 2:
		pv, st = call(func() { log.Error(mark(ctx, s), tag, fields...) })
	case 3:
		s.Fields = []log.Field{log.Msg(msg)}
		pv, st = call(func() { log.Infof(mark(ctx, s), tag, "%s", msg) })
	case 4:
		s.Fields = []log.Field{log.Msg(msg)}
		pv, st = call(func() { log.Errorf(mark(ctx, s), tag, "%s", msg) })
	case 5:
		pv, st = call(func() { log.Trace(mark(ctx, s), tag, gen) })
	case 6:
		pv, st = call(func() { log.Debug(mark(ctx, s), tag, gen) })
	case 7:
		pv, st = call(func() { log.Panic(mark(ctx, s), tag, fields...) })
	case 8:
		pv, st = call(func() { log.Fatal(mark(ctx, s), tag, fields...) })
	case 9:
		s.Fields = []log.Field{log.Msg(msg)}
		pv, st = call(func() { log.Tracef(mark(ctx, s), tag, "%s", msg) })
	case 10:
		s.Fields = []log.Field{log.Msg(msg)}
		pv, st = call(func() { log.Debugf(mark(ctx, s), tag, "%s", msg) })
	case 11:
		s.Fields = []log.Field{log.Msg(msg)}
		pv, st = call(func() { log.Warnf(mark(ctx, s), tag, "%s", msg) })
	case 12:
		s.Fields = []log.Field{log.Msg(msg)}
		pv, st = call(func() { log.Panicf(mark(ctx, s), tag, "%s", msg) })
	case 13:
		s.Fields = []log.Field{log.Msg(msg)}
		pv, st = call(func() { log.Fatalf(mark(ctx, s), tag, "%s", msg) })
	case 14:
		s.Level = level.Name()
		// Record's skip counts from Record's caller; the closure is that caller
		pv, st = call(func() { log.Record(mark(ctx, s), level, tag, 1, fields...) })
	}
	s.Return, _ = stepTask()
	if pv != nil {
		s.Panic, s.PanicAt = pv, panicSite(st)
	} else {
		s.Returned = true
	}
	return s
}

// mark records the caller's file:line in s and returns ctx unchanged; it is
// written inside the argument list of the logging call, hence on its line.
func mark(ctx context.Context, s *Submitted) context.Context {
	_, s.File, s.Line, _ = runtime.Caller(1)
	return ctx
}

// refLine formats a submitted event alone with a fresh layout of the given
// kind and width: the reference for "what this event produces when formatted alone".
func refLine(s *Submitted, layout string, width int, caller bool) []byte {
	if width == 0 {
		width = 48
	}
	e := &log.Event{
		Level: levelByName(s.Level), Time: s.Time, Tag: s.Tag, Fields: s.Fields, CtxString: s.CtxStr, CtxFields: s.CtxFlds,
	}
	if caller {
		e.File, e.Line = s.File, s.Line
	}
	var b []byte
	switch layout {
	case "JSONLayout":
		l := &log.JSONLayout{BaseLayout: log.BaseLayout{FileLineLength: width}}
		b = l.ToBytes(e)
	default:
		l := &log.TextLayout{BaseLayout: log.BaseLayout{FileLineLength: width}}
		b = l.ToBytes(e)
	}
	return append([]byte(nil), b...)
}

// emitDirect hands an event straight to a directly constructed logger, the
// way the library's own tests drive loggers that are not built by Refresh.
func emitDirect(l log.Logger, task, seq int, tagName string, op EvOp) *Submitted {
	k := evKey{task: task, seq: seq, ctxMode: op.Ctx}
	id := fmt.Sprintf("t%ds%d", task, seq)
	s := &Submitted{ID: id, Task: task, Seq: seq, Tag: tagName, Time: evTime(k), Level: entryLevels[op.Kind%5], File: "direct.go", Line: 100 + seq}
	if op.Ctx&1 != 0 {
		s.CtxStr = ctxString(k)
	}
	if op.Ctx&2 != 0 {
		s.CtxFlds = ctxFields(k)
	}
	s.Fields = payloadFields(id, task, seq, op.Size)
	s.Invoke, _ = stepTask()
	pv, st := call(func() {
		e := log.GetEvent()
		e.Level, e.Time, e.File, e.Line, e.Tag = levelByName(s.Level), s.Time, s.File, s.Line, s.Tag
		e.Fields, e.CtxString, e.CtxFields = s.Fields, s.CtxStr, s.CtxFlds
		l.Append(e)
	})
	s.Return, _ = stepTask()
	if pv != nil {
		s.Panic, s.PanicAt = pv, panicSite(st)
	} else {
		s.Returned = true
	}
	return s
}

// callerContext builds the caller's context. Bits 4 and 8 of mode make it a context that is
// already done (cancelled / past its deadline): "arbitrary contexts" includes those, and the
// hooks must still be handed exactly this context.
func callerContext(k evKey, mode int) context.Context {
	ctx := context.WithValue(context.Background(), ctxKey, k)
	switch {
	case mode&4 != 0:
		c, cancel := context.WithCancel(ctx)
		cancel()
		return c
	case mode&8 != 0:
		c, cancel := context.WithDeadline(ctx, time.Unix(1, 0))
		_ = cancel
		return c
	}
	return ctx
}

func ctxFor(task, seq int) context.Context {
	return context.WithValue(context.Background(), ctxKey, evKey{task: task, seq: seq})
}
