package verifsim

import (
	"fmt"
	"sync"
	"testing"
	"testing/synctest"
	"time"
)

// bubble runs f as the root goroutine of a synctest bubble and recovers the
// end-of-bubble deadlock panic that leaked (natively blocked) tasks cause.
func bubble(t *testing.T, f func()) (leakPanic any) {
	defer func() { leakPanic = recover() }()
	synctest.Test(t, func(t *testing.T) { f() })
	return nil
}

func runPC(t *testing.T, tape []int) (string, uint64) {
	var out string
	var h uint64
	bubble(t, func() {
		s := New(Config{Tape: tape, KeepTrace: true})
		ch := make(chan int, 2)
		var mu sync.Mutex
		log := ""
		for p := 0; p < 3; p++ {
			s.Spawn(fmt.Sprintf("prod%d", p), func() {
				for i := 0; i < 5; i++ {
					Yield("send")
					ch <- p*100 + i
					Yield("send/post")
				}
			})
		}
		s.Spawn("cons", func() {
			for i := 0; i < 15; i++ {
				v := Recv("recv", ch)
				mu.Lock()
				log += fmt.Sprint(v, ",")
				mu.Unlock()
			}
		})
		res := s.Run(nil)
		if res.Stuck || res.StepCap {
			t.Errorf("unexpected: %+v", res)
		}
		s.Close()
		out, h = log, s.TraceHash()
	})
	return out, h
}

func TestDeterministicAndTapeSensitive(t *testing.T) {
	tape := make([]int, 200)
	x := uint64(7)
	for i := range tape {
		x = x*6364136223846793005 + 1442695040888963407
		if x>>60 < 5 {
			tape[i] = int(x>>33) % 7
		}
	}
	a, ha := runPC(t, tape)
	for i := 0; i < 20; i++ {
		b, hb := runPC(t, tape)
		if a != b || ha != hb {
			t.Fatalf("nondeterministic: %q vs %q", a, b)
		}
	}
	c, _ := runPC(t, nil)
	if c == a {
		t.Fatalf("tape had no influence")
	}
	if c != "0,1,2,3,4,100,101,102,103,104,200,201,202,203,204," {
		// sequential default: prod0 runs until it blocks on the full channel...
		t.Logf("zero tape order: %s", c)
	}
}

func TestDeadlockDetected(t *testing.T) {
	p := bubble(t, func() {
		s := New(Config{})
		ch := make(chan int)
		s.Spawn("a", func() { Recv("r", ch) })
		res := s.Run(nil)
		if !res.Stuck || len(res.Blocked) != 1 {
			t.Errorf("want stuck, got %+v", res)
		}
		if leaked := s.Close(); leaked != 1 {
			t.Errorf("leaked=%d", leaked)
		}
	})
	if p == nil {
		t.Logf("no end-of-bubble panic (fine)")
	}
}

func TestCoopLock(t *testing.T) {
	bubble(t, func() {
		s := New(Config{Tape: []int{0, 0, 0, 2, 2, 1, 2, 1}})
		var mu sync.Mutex
		n := 0
		for i := 0; i < 3; i++ {
			s.Spawn(fmt.Sprint("t", i), func() {
				for k := 0; k < 3; k++ {
					Acquire("lock", mu.TryLock, mu.Lock)
					v := n
					Yield("crit")
					n = v + 1
					Release(mu.Unlock)
				}
			})
		}
		res := s.Run(nil)
		if res.Stuck || n != 9 {
			t.Errorf("n=%d res=%+v", n, res)
		}
		s.Close()
	})
}

func TestClockAndEnv(t *testing.T) {
	bubble(t, func() {
		s := New(Config{Offset: 3 * time.Hour})
		t0 := Now()
		var seen time.Time
		s.Spawn("sleeper", func() {
			Sleep("sl", time.Minute)
			seen = Now()
		})
		adv := 0
		s.AddEnv(&EnvAction{Name: "adv", WhenStuck: true, Enabled: func() bool { return adv < 3 }, Run: func() { adv++; s.Advance(30 * time.Second) }})
		res := s.Run(nil)
		if res.Stuck {
			t.Errorf("stuck %+v", res)
		}
		if seen.Sub(t0) != time.Minute {
			t.Errorf("slept %v", seen.Sub(t0))
		}
		s.Close()
	})
}

func TestPanicRecorded(t *testing.T) {
	bubble(t, func() {
		s := New(Config{})
		s.Spawn("boom", func() { Yield("x"); panic("bang") })
		s.Run(nil)
		d := s.Died()
		if len(d) != 1 || d[0].Panic != "bang" {
			t.Errorf("died=%v", d)
		}
		s.Close()
	})
}

