// Package verifsim is the deterministic-simulation runtime that cmd/simgen
// links into an instrumented scratch copy of github.com/go-spring/log.
//
// Model: every simulated task is a real goroutine that only executes while it
// holds the single run token. The scheduler is the root goroutine of one
// testing/synctest bubble; it waits until every goroutine in the bubble is
// durably blocked (synctest.Wait), then hands the token to exactly one parked
// task, chosen by the choice tape. Outside an active simulation (or when
// called from a goroutine that is not a task) every entry point is a plain
// pass-through, so the instrumented package behaves like the original.
package verifsim

import (
	"fmt"
	"hash/fnv"
	"reflect"
	"runtime"
	"sort"
	"strings"
	"sync"
	"sync/atomic"
	"testing/synctest"
	"time"
)

// State of a task as seen by the scheduler.
type State int

const (
	StNew      State = iota // goroutine created, has not parked yet
	StParked                // parked at a yield: runnable
	StRunning               // holds (or held) the token
	StBlocked               // durably blocked in a native operation (chan, Sleep, Cond, WaitGroup)
	StLockWait              // waiting for a cooperative lock
	StDone                  // function returned, panicked or was killed
)

func (s State) String() string {
	return [...]string{"new", "parked", "running", "blocked", "lockwait", "done"}[s]
}

// Task is one simulated thread of control.
type Task struct {
	ID       int
	Name     string
	Site     string // last yield site
	State    State
	Panic    any    // recovered panic value, if the task died
	Stack    string // stack of that panic
	Steps    int    // times scheduled
	Daemon   bool   // created by library code (go statement), not by the harness
	wake     chan struct{}
	killed   bool
	exiting  bool
	gid      uint64
	lastStep int
	prio     int64
}

// EnvAction is an environment decision the scheduler can take instead of
// running a task (advance the clock, open a gate, start/stop a fault).
type EnvAction struct {
	Name      string
	Enabled   func() bool
	Run       func()
	WhenStuck bool // also taken by default when no task is runnable
}

// Event is one entry of the decision trace.
type Event struct {
	Step int    `json:"step"`
	Task int    `json:"task"`           // task id, -1 for environment actions
	Name string `json:"name,omitempty"` // task or action name
	Site string `json:"site,omitempty"` // yield site the task resumed from
	Now  int64  `json:"now_ms"`         // simulated clock, ms since bubble epoch
	Sw   bool   `json:"switch,omitempty"`
}

// Config is everything that decides an execution besides the code itself.
type Config struct {
	Tape      []int    // scheduling choices; 0 (or exhausted) = default
	MaxSteps  int      // step cap per Run (livelock bound); 0 = 200000
	CycleTape bool     // when the tape is used up start over from its beginning instead of answering 0 for ever
	PoolMode  int      // see Pool
	MapSeed   uint64   // 0 = sorted map iteration, else seeded permutation
	Starve    []string // task-name prefixes only scheduled when nothing else is runnable
	Offset    time.Duration
	KeepTrace bool // keep the whole decision trace (replay files); else last 4096 decisions
	Fair      int  // consecutive default steps before a forced round-robin switch; 0 = 2000
	Watch     []string // substrings of yield sites whose visits are recorded (Sim.Watched)
	AutoAdvance time.Duration // simulated time a Run may let pass on its own while a harness task is natively blocked; 0 = 5 s
	// Strategy 0: every tape entry picks the next thing to run (0 = keep going).
	// Strategy 1 (PCT-style): tasks carry priorities drawn from the auxiliary PRNG, the runnable
	// task of highest priority always runs, and a non-zero tape entry demotes the running task
	// below all others (a priority change point); tape entries >= 8 pick an environment action.
	Strategy int
}

// WatchEv is one recorded visit of a watched yield site: the task resumed
// from that site at that step.
type WatchEv struct {
	Task int
	Name string
	Site string
	Step int
}

// Sim is one simulated execution.
type Sim struct {
	cfg Config

	mu      sync.Mutex
	tasks   []*Task
	byGID   map[uint64]*Task
	cur     *Task
	envs    []*EnvAction
	pos     int // tape position
	steps   int
	epoch   uint64
	rng     uint64
	skew    time.Duration
	trace   []Event
	hash    uint64 // hash of the whole decision sequence
	swHash  uint64 // hash of context switches + env actions only
	nSwitch int
	nEnv    int
	nPreempt int
	runLen  int
	rr      int

	Probes  map[string]int64 // reach probes ("this happened"), free for harness and runtime
	States  map[uint64]struct{}
	Notes   []string
	closed  bool
	stuckAt string
	watched []WatchEv
	lowPrio int64
}

// Watched returns the recorded visits of watched sites.
func (s *Sim) Watched() []WatchEv { return s.watched }

var active atomic.Pointer[Sim]

// sinkBusy counts sink writes (simos files, streams) that have started reading
// their argument and not yet committed; reach probes use it.
var sinkBusy atomic.Int64

// SinkBusy adjusts the in-flight sink write counter and returns the new value.
func SinkBusy(d int64) int64 { return sinkBusy.Add(d) }
var epochCounter atomic.Uint64

// Deactivate forgets the active simulation without touching its tasks (used
// when its bubble is already gone).
func Deactivate() { active.Store(nil) }

// Active returns the running simulation or nil.
func Active() *Sim { return active.Load() }

// New creates a simulation and makes it the active one. It must be called from
// the root goroutine of a synctest bubble.
func New(cfg Config) *Sim {
	if cfg.MaxSteps == 0 {
		cfg.MaxSteps = 200000
	}
	if cfg.Fair == 0 {
		cfg.Fair = 2000
	}
	if cfg.AutoAdvance == 0 {
		cfg.AutoAdvance = 5 * time.Second
	}
	s := &Sim{
		cfg:    cfg,
		byGID:  map[uint64]*Task{},
		Probes: map[string]int64{},
		States: map[uint64]struct{}{},
		epoch:  epochCounter.Add(1),
		rng:    cfg.MapSeed*0x9E3779B97F4A7C15 + 0x1234567,
		hash:   14695981039346656037,
		swHash: 14695981039346656037,
	}
	sinkBusy.Store(0)
	if !active.CompareAndSwap(nil, s) {
		panic("verifsim: a simulation is already active")
	}
	return s
}

// Close kills every remaining task that can be killed and deactivates the
// simulation. Tasks that are natively blocked for ever are leaked (the
// end-of-bubble panic this causes is recovered by the harness).
func (s *Sim) Close() (leaked int) {
	if s.closed {
		return 0
	}
	s.closed = true
	for round := 0; round < 50; round++ {
		synctest.Wait()
		s.mu.Lock()
		s.classifyLocked()
		var victims []*Task
		for _, t := range s.tasks {
			if t.State == StParked || t.State == StLockWait || t.State == StNew {
				victims = append(victims, t)
			}
		}
		for _, t := range victims {
			t.killed = true
			t.State = StRunning
		}
		s.mu.Unlock()
		if len(victims) == 0 {
			break
		}
		for _, t := range victims {
			t.wake <- struct{}{}
		}
	}
	synctest.Wait()
	s.mu.Lock()
	s.classifyLocked()
	for _, t := range s.tasks {
		if t.State != StDone {
			leaked++
		}
	}
	s.mu.Unlock()
	active.Store(nil)
	return leaked
}

// Epoch identifies the simulation; pools and other process-level objects use it
// to drop state that belongs to an earlier simulation.
func (s *Sim) Epoch() uint64 { return s.epoch }

// AddEnv registers an environment action.
func (s *Sim) AddEnv(a *EnvAction) { s.envs = append(s.envs, a) }

// Probe counts a reach probe.
func (s *Sim) Probe(name string) {
	s.mu.Lock()
	s.Probes[name]++
	s.mu.Unlock()
}

// Probe counts a reach probe on the active simulation, if any.
func Probe(name string) {
	if s := active.Load(); s != nil {
		s.Probe(name)
	}
}

// NoteState records an abstract state (any comparable summary rendered to a string).
func (s *Sim) NoteState(st string) {
	h := fnv.New64a()
	h.Write([]byte(st))
	s.mu.Lock()
	s.States[h.Sum64()] = struct{}{}
	s.mu.Unlock()
}

// Rand returns the next value of the auxiliary PRNG (pool choices, map
// permutations, fault coins). It never touches the scheduling tape.
func (s *Sim) Rand() uint64 {
	s.mu.Lock()
	defer s.mu.Unlock()
	return s.randLocked()
}

func (s *Sim) randLocked() uint64 {
	s.rng += 0x9E3779B97F4A7C15
	z := s.rng
	z = (z ^ (z >> 30)) * 0xBF58476D1CE4E5B9
	z = (z ^ (z >> 27)) * 0x94D049BB133111EB
	return z ^ (z >> 31)
}

// ---------------------------------------------------------------- tasks

func goid() uint64 {
	var buf [40]byte
	n := runtime.Stack(buf[:], false)
	// "goroutine 123 ["
	var id uint64
	for i := 10; i < n; i++ {
		c := buf[i]
		if c < '0' || c > '9' {
			break
		}
		id = id*10 + uint64(c-'0')
	}
	return id
}

func (s *Sim) self() *Task {
	g := goid()
	s.mu.Lock()
	t := s.byGID[g]
	s.mu.Unlock()
	return t
}

// Spawn creates a harness task. Call from the root goroutine between runs, or
// from a task.
func (s *Sim) Spawn(name string, f func()) *Task {
	return s.spawn(name, false, f)
}

func (s *Sim) spawn(name string, daemon bool, f func()) *Task {
	s.mu.Lock()
	t := &Task{ID: len(s.tasks), Name: name, State: StNew, Daemon: daemon, wake: make(chan struct{})}
	t.prio = int64(s.randLocked()>>2) + 1
	s.tasks = append(s.tasks, t)
	s.mu.Unlock()
	go func() {
		g := goid()
		s.mu.Lock()
		t.gid = g
		s.byGID[g] = t
		t.Site = "start"
		t.State = StParked
		s.mu.Unlock()
		defer func() {
			r := recover()
			s.mu.Lock()
			if r != nil {
				t.Panic = r
				buf := make([]byte, 32768)
				t.Stack = string(buf[:runtime.Stack(buf, false)])
			}
			t.State = StDone
			delete(s.byGID, g)
			s.mu.Unlock()
		}()
		<-t.wake
		if t.killed {
			return
		}
		f()
	}()
	return t
}

// Go replaces a go statement of the code under test.
func Go(site string, f func()) {
	s := active.Load()
	if s == nil {
		go f()
		return
	}
	s.spawn("go@"+site, true, f)
}

// Yield is a scheduling point.
func Yield(site string) {
	s := active.Load()
	if s == nil {
		return
	}
	t := s.self()
	if t == nil {
		return
	}
	s.park(t, site, StParked)
}

func (s *Sim) park(t *Task, site string, st State) {
	if t.exiting {
		return
	}
	s.mu.Lock()
	t.Site = site
	t.State = st
	s.mu.Unlock()
	<-t.wake
	if t.killed {
		t.exiting = true
		runtime.Goexit()
	}
}

// Pre yields and then returns its argument. simgen rewrites an interesting
// call f(args) into Pre(site, f)(args): the yield happens before the call.
func Pre[T any](site string, f T) T {
	Yield(site)
	return f
}

// Recv is a channel receive with a yield before and directly after it.
func Recv[T any](site string, ch <-chan T) T {
	Yield(site)
	v := <-ch
	Yield(site + "/post")
	return v
}

// Recv2 is the comma-ok form of Recv.
func Recv2[T any](site string, ch <-chan T) (T, bool) {
	Yield(site)
	v, ok := <-ch
	Yield(site + "/post")
	return v, ok
}

// Blocking wraps a call that may block natively (Cond.Wait, WaitGroup.Wait).
func Blocking(site string, f func()) {
	Yield(site)
	f()
	Yield(site + "/post")
}

// Sleep replaces time.Sleep.
func Sleep(site string, d time.Duration) {
	Yield(site)
	time.Sleep(d)
	Yield(site + "/post")
}

// AfterFunc replaces time.AfterFunc: the callback runs as a task.
func AfterFunc(site string, d time.Duration, f func()) *time.Timer {
	s := active.Load()
	if s == nil {
		return time.AfterFunc(d, f)
	}
	return time.AfterFunc(d, func() { s.spawn("timer@"+site, true, f) })
}

// Acquire is a cooperative lock acquisition: try is TryLock/TryRLock of the
// mutex. A natively blocked mutex is not durably blocked for synctest, so the
// wait is modelled by the scheduler.
func Acquire(site string, try func() bool, lock func()) {
	s := active.Load()
	if s == nil {
		lock()
		return
	}
	t := s.self()
	if t == nil {
		lock()
		return
	}
	s.park(t, site, StParked)
	for !try() {
		if t.exiting {
			return
		}
		s.Probe("lock_contended")
		s.park(t, site+"/wait", StLockWait)
	}
}

// Release calls unlock and makes every lock waiter runnable again.
func Release(unlock func()) {
	unlock()
	s := active.Load()
	if s == nil {
		return
	}
	s.mu.Lock()
	for _, t := range s.tasks {
		if t.State == StLockWait {
			t.State = StParked
		}
	}
	s.mu.Unlock()
}

// ---------------------------------------------------------------- clock

// Now is the simulated wall clock: bubble clock + configured offset + skew.
func Now() time.Time {
	s := active.Load()
	if s == nil {
		return time.Now()
	}
	return time.Now().Add(s.cfg.Offset + s.skew)
}

func Since(t time.Time) time.Duration { return Now().Sub(t) }
func Until(t time.Time) time.Duration { return t.Sub(Now()) }

// Advance moves the simulated clock. Root goroutine only (environment action).
func (s *Sim) Advance(d time.Duration) {
	if d > 0 {
		time.Sleep(d)
	}
}

// Jump adds d to the clock skew (clock-jump fault; may be negative).
func (s *Sim) Jump(d time.Duration) { s.skew += d }

// ---------------------------------------------------------------- scheduler

func (s *Sim) classifyLocked() {
	for _, t := range s.tasks {
		if t.State == StRunning {
			// not parked after quiescence: natively blocked
			t.State = StBlocked
			s.Probes["blocked:"+strings.TrimRight(t.Name, "0123456789")]++
		}
	}
}

func (s *Sim) starved(t *Task) bool {
	for _, p := range s.cfg.Starve {
		if strings.HasPrefix(t.Name, p) {
			return true
		}
	}
	return false
}

func (s *Sim) nextChoice() int {
	if s.pos < len(s.cfg.Tape) {
		v := s.cfg.Tape[s.pos]
		s.pos++
		return v
	}
	s.pos++
	if s.cfg.CycleTape && len(s.cfg.Tape) > 0 {
		return s.cfg.Tape[(s.pos-1)%len(s.cfg.Tape)] // contention presets: the choices never run dry
	}
	return 0
}

// RunResult summarises one scheduling phase.
type RunResult struct {
	Steps    int
	Stuck    bool   // tasks remain that are neither done nor runnable (native block / lock wait)
	StepCap  bool   // MaxSteps reached (livelock bound)
	Blocked  []string
}

// Run schedules until no task is runnable and no WhenStuck action is enabled,
// until(…) returns true (checked between steps, may be nil), or the step cap.
func (s *Sim) Run(until func() bool) RunResult {
	var res RunResult
	start := s.steps
	var autoAdv, stride time.Duration
	for {
		synctest.Wait()
		s.mu.Lock()
		s.classifyLocked()
		if until != nil {
			s.mu.Unlock()
			stop := until()
			s.mu.Lock()
			if stop {
				break
			}
		}
		if s.steps-start >= s.cfg.MaxSteps {
			res.StepCap = true
			break
		}
		var runnable, low []*Task
		for _, t := range s.tasks {
			if t.State == StParked {
				if s.starved(t) {
					low = append(low, t)
				} else {
					runnable = append(runnable, t)
				}
			}
		}
		if len(runnable) == 0 {
			runnable = low
		}
		var envs []*EnvAction
		for _, a := range s.envs {
			if a.Enabled == nil || a.Enabled() {
				envs = append(envs, a)
			}
		}
		// options: default first
		var def *Task
		if s.cur != nil && s.cur.State == StParked && s.runLen < s.cfg.Fair {
			for _, t := range runnable {
				if t == s.cur {
					def = t
				}
			}
		}
		if def == nil && len(runnable) > 0 {
			if s.runLen >= s.cfg.Fair {
				// fairness: round-robin past the current task
				s.rr++
				def = runnable[s.rr%len(runnable)]
			} else {
				def = runnable[0]
			}
		}
		var pickTask *Task
		var pickEnv *EnvAction
		if def == nil {
			// nothing runnable: environment by default, if allowed
			for _, a := range envs {
				if a.WhenStuck {
					pickEnv = a
					break
				}
			}
			if pickEnv == nil {
				// Discrete-event time: a harness task that is natively blocked may be sleeping
				// or waiting for a timer. Let simulated time pass in growing strides (at most
				// AutoAdvance per Run) before declaring it stuck; library goroutines that merely
				// idle (a worker on an empty queue, a ticker loop) do not trigger this.
				harnessBlocked := false
				for _, t := range s.tasks {
					if t.State == StBlocked && !t.Daemon {
						harnessBlocked = true
					}
				}
				if harnessBlocked && autoAdv < s.cfg.AutoAdvance {
					if stride == 0 {
						stride = time.Microsecond
					}
					s.mu.Unlock()
					time.Sleep(stride)
					autoAdv += stride
					stride *= 2
					s.mu.Lock()
					s.Probes["auto_time_advance"]++
					s.mu.Unlock()
					continue
				}
				break
			}
			s.nextChoice() // keep tape aligned: one choice per decision
		} else if s.cfg.Strategy == 1 {
			stride = 0
			v := s.nextChoice()
			if v >= 8 && len(envs) > 0 {
				pickEnv = envs[(v-8)%len(envs)]
			} else {
				if (v != 0 || s.runLen >= s.cfg.Fair) && s.cur != nil {
					s.lowPrio--
					s.cur.prio = s.lowPrio // change point (or fairness): the running task falls behind everybody
				}
				best := runnable[0]
				for _, t := range runnable[1:] {
					if t.prio > best.prio {
						best = t
					}
				}
				pickTask = best
			}
		} else {
			stride = 0
			v := s.nextChoice()
			if v == 0 {
				pickTask = def
			} else {
				n := len(runnable) + len(envs)
				k := (v - 1) % n
				if k < len(runnable) {
					pickTask = runnable[k]
				} else {
					pickEnv = envs[k-len(runnable)]
				}
			}
		}
		s.steps++
		now := time.Now().UnixMilli() - bubbleEpochMs
		if pickEnv != nil {
			s.nEnv++
			s.record(Event{Step: s.steps, Task: -1, Name: pickEnv.Name, Now: now, Sw: true})
			s.mu.Unlock()
			pickEnv.Run()
			continue
		}
		t := pickTask
		sw := s.cur != t
		if sw {
			s.nSwitch++
			if s.cur != nil && s.cur.State == StParked {
				s.nPreempt++
			}
			s.runLen = 0
		} else {
			s.runLen++
		}
		s.cur = t
		t.State = StRunning
		t.Steps++
		s.record(Event{Step: s.steps, Task: t.ID, Name: t.Name, Site: t.Site, Now: now, Sw: sw})
		s.mu.Unlock()
		t.wake <- struct{}{}
	}
	// locked here
	res.Steps = s.steps - start
	for _, t := range s.tasks {
		if t.State == StBlocked || t.State == StLockWait {
			res.Stuck = true
			res.Blocked = append(res.Blocked, fmt.Sprintf("%s@%s(%s)", t.Name, t.Site, t.State))
		}
	}
	s.mu.Unlock()
	return res
}

const bubbleEpochMs = 946684800000 // 2000-01-01T00:00:00Z, the synctest bubble epoch

func (s *Sim) record(e Event) {
	for _, w := range s.cfg.Watch {
		if strings.Contains(e.Site, w) {
			s.watched = append(s.watched, WatchEv{Task: e.Task, Name: e.Name, Site: e.Site, Step: e.Step})
			break
		}
	}
	// hash
	h := s.hash
	h = (h ^ uint64(uint32(e.Task+2))) * 1099511628211
	for i := 0; i < len(e.Site); i++ {
		h = (h ^ uint64(e.Site[i])) * 1099511628211
	}
	for i := 0; i < len(e.Name) && e.Task < 0; i++ {
		h = (h ^ uint64(e.Name[i])) * 1099511628211
	}
	s.hash = h
	if e.Sw {
		w := s.swHash
		w = (w ^ uint64(uint32(e.Task+2))) * 1099511628211
		for i := 0; i < len(e.Site); i++ {
			w = (w ^ uint64(e.Site[i])) * 1099511628211
		}
		for i := 0; i < len(e.Name) && e.Task < 0; i++ {
			w = (w ^ uint64(e.Name[i])) * 1099511628211
		}
		s.swHash = w
	}
	if s.cfg.KeepTrace || len(s.trace) < 4096 {
		s.trace = append(s.trace, e)
	} else {
		copy(s.trace, s.trace[1024:])
		s.trace = append(s.trace[:len(s.trace)-1024], e)
	}
}

// Trace returns the recorded decisions (all of them with KeepTrace).
func (s *Sim) Trace() []Event { return s.trace }

// TraceHash is the hash of every decision taken so far.
func (s *Sim) TraceHash() uint64 { return s.hash }

// SwitchHash hashes only context switches and environment actions: the
// measure behind "distinct interleavings".
func (s *Sim) SwitchHash() uint64 { return s.swHash }

// Counters of the run.
func (s *Sim) Steps() int       { return s.steps }
func (s *Sim) Switches() int    { return s.nSwitch }
func (s *Sim) Preemptions() int { return s.nPreempt }
func (s *Sim) EnvActions() int  { return s.nEnv }
func (s *Sim) TapeUsed() int    { return s.pos }
func (s *Sim) StepNo() int {
	s.mu.Lock()
	defer s.mu.Unlock()
	return s.steps
}

// Tasks returns a snapshot of all tasks.
func (s *Sim) Tasks() []Task {
	s.mu.Lock()
	defer s.mu.Unlock()
	out := make([]Task, len(s.tasks))
	for i, t := range s.tasks {
		out[i] = *t
		out[i].wake = nil
	}
	return out
}

// AllTasksLocked reports whether pred holds for every task. It is for use inside
// EnvAction.Enabled callbacks only (the scheduler already holds the lock there).
func (s *Sim) AllTasksLocked(pred func(t Task) bool) bool {
	for _, t := range s.tasks {
		c := *t
		c.wake = nil
		if !pred(c) {
			return false
		}
	}
	return true
}

// TaskState returns the state of a task.
func (s *Sim) TaskState(t *Task) State {
	s.mu.Lock()
	defer s.mu.Unlock()
	return t.State
}

// CurrentTask returns the id and name of the calling task (-1 if none).
func CurrentTask() (int, string) {
	s := active.Load()
	if s == nil {
		return -1, ""
	}
	if t := s.self(); t != nil {
		return t.ID, t.Name
	}
	return -1, ""
}

// Died lists tasks that ended in a panic.
func (s *Sim) Died() []Task {
	var out []Task
	for _, t := range s.Tasks() {
		if t.Panic != nil {
			out = append(out, t)
		}
	}
	return out
}

// ---------------------------------------------------------------- maps

// MapKeys returns the keys of m in the iteration order chosen for this
// simulation: sorted when MapSeed is 0, otherwise a seeded permutation.
func MapKeys[M ~map[K]V, K interface{ ~string | ~int | ~int32 | ~int64 | ~uint64 | ~uint32 | ~uint }, V any](site string, m M) []K {
	keys := make([]K, 0, len(m))
	for k := range m {
		keys = append(keys, k)
	}
	sort.Slice(keys, func(i, j int) bool { return keys[i] < keys[j] })
	s := active.Load()
	if s == nil || s.cfg.MapSeed == 0 || len(keys) < 2 {
		return keys
	}
	s.mu.Lock()
	for i := len(keys) - 1; i > 0; i-- {
		j := int(s.randLocked() % uint64(i+1))
		keys[i], keys[j] = keys[j], keys[i]
	}
	s.Probes["map_range_permuted"]++
	s.mu.Unlock()
	return keys
}

// ---------------------------------------------------------------- call wrappers
//
// W<params><results>(site, f) returns a function with f's signature that yields
// and then calls f. simgen rewrites an interesting call f(args) into
// W..(site, f)(args): the arguments are evaluated first and the scheduling
// point sits directly before the operation itself, so that a read-modify-write
// composed of two individually atomic operations (x.Store(x.Load()+1)) can lose
// updates under the serialising scheduler exactly as it can on real hardware.

func W00(site string, f func()) func() { return func() { Yield(site); f() } }
func W01[R any](site string, f func() R) func() R {
	return func() R { Yield(site); return f() }
}
func W02[R, S any](site string, f func() (R, S)) func() (R, S) {
	return func() (R, S) { Yield(site); return f() }
}
func W10[A any](site string, f func(A)) func(A) { return func(a A) { Yield(site); f(a) } }
func W11[A, R any](site string, f func(A) R) func(A) R {
	return func(a A) R { Yield(site); return f(a) }
}
func W12[A, R, S any](site string, f func(A) (R, S)) func(A) (R, S) {
	return func(a A) (R, S) { Yield(site); return f(a) }
}
func W20[A, B any](site string, f func(A, B)) func(A, B) {
	return func(a A, b B) { Yield(site); f(a, b) }
}
func W21[A, B, R any](site string, f func(A, B) R) func(A, B) R {
	return func(a A, b B) R { Yield(site); return f(a, b) }
}
func W22[A, B, R, S any](site string, f func(A, B) (R, S)) func(A, B) (R, S) {
	return func(a A, b B) (R, S) { Yield(site); return f(a, b) }
}
func W30[A, B, C any](site string, f func(A, B, C)) func(A, B, C) {
	return func(a A, b B, c C) { Yield(site); f(a, b, c) }
}
func W31[A, B, C, R any](site string, f func(A, B, C) R) func(A, B, C) R {
	return func(a A, b B, c C) R { Yield(site); return f(a, b, c) }
}
func W32[A, B, C, R, S any](site string, f func(A, B, C) (R, S)) func(A, B, C) (R, S) {
	return func(a A, b B, c C) (R, S) { Yield(site); return f(a, b, c) }
}

// ---------------------------------------------------------------- select

// SelCase is one communication clause of a rewritten select statement.
type SelCase struct {
	Send bool
	Chan any // the channel
	Val  any // value to send
}

// RecvOf / SendOf build the cases (the channel and value expressions are
// evaluated once, in source order, as the language prescribes).
func RecvOf(ch any) SelCase        { return SelCase{Chan: ch} }
func SendOf(ch any, v any) SelCase { return SelCase{Send: true, Chan: ch, Val: v} }

// Select replaces a select statement with two or more communication clauses.
// Go chooses uniformly at random among ready cases; here the order in which
// ready cases are tried comes from the simulation's auxiliary PRNG, so the
// choice is reproducible and every ready case can be chosen. If nothing is
// ready and there is no default clause the task blocks natively on all cases
// (only one task runs at a time, so at most one case becomes ready first).
// It returns the index of the chosen case (-1 = default), the received value
// and the receive's ok flag.
func Select(site string, hasDefault bool, cases ...SelCase) (int, reflect.Value, bool) {
	Yield(site)
	rc := make([]reflect.SelectCase, len(cases))
	for i, c := range cases {
		rc[i] = reflect.SelectCase{Dir: reflect.SelectRecv, Chan: reflect.ValueOf(c.Chan)}
		if c.Send {
			rc[i].Dir = reflect.SelectSend
			ct := rc[i].Chan.Type().Elem()
			if c.Val == nil {
				rc[i].Send = reflect.Zero(ct)
			} else {
				rc[i].Send = reflect.ValueOf(c.Val).Convert(ct)
			}
		}
		if !rc[i].Chan.IsValid() || rc[i].Chan.IsNil() {
			rc[i].Chan = reflect.Value{} // nil channel: never ready
			rc[i].Send = reflect.Value{}
		}
	}
	order := make([]int, len(cases))
	for i := range order {
		order[i] = i
	}
	if s := active.Load(); s != nil && s.cfg.MapSeed != 0 {
		s.mu.Lock()
		for i := len(order) - 1; i > 0; i-- {
			j := int(s.randLocked() % uint64(i+1))
			order[i], order[j] = order[j], order[i]
		}
		s.mu.Unlock()
	}
	for _, i := range order {
		if !rc[i].Chan.IsValid() {
			continue
		}
		chosen, v, ok := reflect.Select([]reflect.SelectCase{rc[i], {Dir: reflect.SelectDefault}})
		if chosen == 0 {
			Yield(site + "/post")
			return i, v, ok
		}
	}
	if hasDefault {
		return -1, reflect.Value{}, false
	}
	chosen, v, ok := reflect.Select(rc)
	Yield(site + "/post")
	return chosen, v, ok
}

// As converts a value received through Select to its static type.
func As[T any](v reflect.Value) T {
	var zero T
	if !v.IsValid() {
		return zero
	}
	if x, ok := v.Interface().(T); ok {
		return x
	}
	return zero
}

// AsOf is As with the element type inferred from the channel.
func AsOf[T any](ch <-chan T, v reflect.Value) T { return As[T](v) }
