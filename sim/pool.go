package verifsim

import "sync"

// Pool modes (Config.PoolMode). Every behaviour is one sync.Pool permits.
const (
	PoolLIFO     = 0 // Get returns the most recently Put object: a buffer is re-issued at the first opportunity (adversarial default)
	PoolFIFO     = 1 // oldest first
	PoolRandom   = 2 // PRNG-chosen object; 1 in 4 Gets allocate although objects are available; 1 in 8 Puts drop
	PoolNoReuse  = 3 // every Put drops (what a GC between Put and Get does)
)

// Pool is a deterministic stand-in for sync.Pool (simgen rewrites the type).
// Outside a simulation it delegates to a real sync.Pool.
type Pool struct {
	New func() any

	mu    sync.Mutex
	items []any
	epoch uint64
	real  sync.Pool
}

func (p *Pool) sim() *Sim {
	s := active.Load()
	if s == nil {
		return nil
	}
	p.mu.Lock()
	if p.epoch != s.epoch {
		p.items = nil
		p.epoch = s.epoch
	}
	p.mu.Unlock()
	return s
}

// Get yields, then returns an object chosen by the pool mode.
func (p *Pool) Get() any {
	s := p.sim()
	if s == nil {
		if v := p.real.Get(); v != nil {
			return v
		}
		if p.New != nil {
			return p.New()
		}
		return nil
	}
	Yield("pool.Get")
	if sinkBusy.Load() > 0 {
		s.Probe("pool_get_during_sink_write")
	}
	p.mu.Lock()
	var v any
	n := len(p.items)
	if n > 0 {
		switch s.cfg.PoolMode {
		case PoolFIFO:
			v = p.items[0]
			p.items = append(p.items[:0], p.items[1:]...)
		case PoolRandom:
			r := s.Rand()
			if r%4 != 0 {
				i := int((r >> 8) % uint64(n))
				v = p.items[i]
				p.items = append(p.items[:i], p.items[i+1:]...)
			}
		default:
			v = p.items[n-1]
			p.items = p.items[:n-1]
		}
	}
	p.mu.Unlock()
	if v != nil {
		s.Probe("pool_reuse")
		return v
	}
	if p.New != nil {
		return p.New()
	}
	return nil
}

// Put yields, then keeps (or, by mode, drops) the object.
func (p *Pool) Put(x any) {
	s := p.sim()
	if s == nil {
		p.real.Put(x)
		return
	}
	Yield("pool.Put")
	if x == nil {
		return
	}
	switch s.cfg.PoolMode {
	case PoolNoReuse:
		return
	case PoolRandom:
		if s.Rand()%8 == 0 {
			return
		}
	}
	p.mu.Lock()
	p.items = append(p.items, x)
	p.mu.Unlock()
	// the object is up for grabs from here on: whoever still uses it (or memory it owns)
	// after Put races with the next Get
	Yield("pool.Put/post")
}

// Once is a cooperative stand-in for sync.Once (simgen rewrites the type): a
// task that calls Do while another task is parked inside f waits as a lock
// waiter of the scheduler instead of blocking on sync.Once's internal mutex,
// which synctest does not regard as durably blocked.
type Once struct {
	mu      sync.Mutex
	done    bool
	running bool
	real    sync.Once
}

// Do calls f if and only if Do is being called for the first time for this Once.
func (o *Once) Do(f func()) {
	s := active.Load()
	var t *Task
	if s != nil {
		t = s.self()
	}
	if t == nil {
		o.mu.Lock()
		done := o.done
		o.mu.Unlock()
		if done {
			return
		}
		o.real.Do(func() {
			defer func() { o.mu.Lock(); o.done = true; o.mu.Unlock() }()
			f()
		})
		return
	}
	s.park(t, "once.Do", StParked)
	for {
		o.mu.Lock()
		if o.done {
			o.mu.Unlock()
			return
		}
		if !o.running {
			o.running = true
			o.mu.Unlock()
			break
		}
		o.mu.Unlock()
		if t.exiting {
			return
		}
		s.park(t, "once.Do/wait", StLockWait)
	}
	defer func() {
		o.mu.Lock()
		o.done, o.running = true, false
		o.mu.Unlock()
		Release(func() {})
	}()
	f()
}
