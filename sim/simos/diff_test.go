package simos

// Stub-fidelity self-test: the same fault-free operation sequences are driven
// through simos and through the real package os in a temporary directory; file
// contents, directory listings, returned counts and error classes must agree.
// It runs outside any simulation (all yields are pass-throughs).

import (
	"errors"
	"fmt"
	"io/fs"
	"os"
	"path/filepath"
	"sort"
	"strings"
	"testing"
)

type handle struct {
	sim  *File
	real *os.File
}

func errClass(err error) string {
	switch {
	case err == nil:
		return "ok"
	case errors.Is(err, fs.ErrNotExist):
		return "not-exist"
	case errors.Is(err, fs.ErrExist):
		return "exist"
	case errors.Is(err, fs.ErrClosed):
		return "closed"
	case errors.Is(err, fs.ErrInvalid):
		return "invalid"
	case errors.Is(err, fs.ErrPermission):
		return "permission"
	}
	s := err.Error()
	for _, k := range []string{"is a directory", "not a directory", "directory not empty", "bad file descriptor", "file exists"} {
		if strings.Contains(s, k) {
			return k
		}
	}
	return "other:" + s
}

func listReal(t *testing.T, root string) map[string]string {
	out := map[string]string{}
	filepath.WalkDir(root, func(p string, d fs.DirEntry, err error) error {
		if err != nil || p == root {
			return nil
		}
		rel, _ := filepath.Rel(root, p)
		if d.IsDir() {
			out[rel] = "<dir>"
		} else {
			b, _ := os.ReadFile(p)
			out[rel] = string(b)
		}
		return nil
	})
	return out
}

func listSim(f *FS, root string) map[string]string {
	out := map[string]string{}
	var rec func(dir, rel string)
	rec = func(dir, rel string) {
		for _, e := range f.List(dir) {
			r := e.Name
			if rel != "" {
				r = rel + "/" + e.Name
			}
			if e.IsDir {
				out[r] = "<dir>"
				rec(dir+"/"+e.Name, r)
			} else {
				b, _ := f.ReadFile(dir + "/" + e.Name)
				out[r] = string(b)
			}
		}
	}
	rec(root, "")
	return out
}

func TestDifferentialAgainstOS(t *testing.T) {
	flagsets := []int{
		O_WRONLY | O_CREATE | O_APPEND,
		O_WRONLY | O_CREATE | O_TRUNC,
		O_WRONLY | O_CREATE,
		O_RDWR | O_CREATE | O_EXCL,
		O_WRONLY,
		O_RDONLY,
		O_WRONLY | O_APPEND,
	}
	names := []string{"a.log", "b.log", "sub/c.log", "sub", "missing/d.log", "a.log.20240101000000"}
	for seed := uint64(1); seed <= 300; seed++ {
		x := seed * 0x9E3779B97F4A7C15
		next := func(n int) int {
			x ^= x << 13
			x ^= x >> 7
			x ^= x << 17
			return int(x % uint64(n))
		}
		simfs := Reset()
		simfs.MkdirAll("/root")
		realRoot := t.TempDir()
		var hs []handle
		var trace []string
		fail := func(format string, a ...any) {
			t.Fatalf("seed %d: %s\ntrace:\n  %s", seed, fmt.Sprintf(format, a...), strings.Join(trace, "\n  "))
		}
		for step := 0; step < 40; step++ {
			op := next(12)
			name := names[next(len(names))]
			sp, rp := "/root/"+name, filepath.Join(realRoot, name)
			switch op {
			case 0, 1, 2: // open
				fl := flagsets[next(len(flagsets))]
				sh, se := OpenFile(sp, fl, 0o644)
				rh, re := os.OpenFile(rp, fl, 0o644)
				trace = append(trace, fmt.Sprintf("open %s flags=%#x -> sim %s real %s", name, fl, errClass(se), errClass(re)))
				if errClass(se) != errClass(re) {
					fail("OpenFile(%s,%#x): sim %v, real %v", name, fl, se, re)
				}
				if se == nil {
					hs = append(hs, handle{sh, rh})
				}
			case 3, 4, 5: // write
				if len(hs) == 0 {
					continue
				}
				h := hs[next(len(hs))]
				data := []byte(fmt.Sprintf("w%d-%s\n", step, strings.Repeat("x", next(20))))
				sn, se := h.sim.Write(data)
				rn, re := h.real.Write(data)
				trace = append(trace, fmt.Sprintf("write %s %d bytes -> sim (%d,%s) real (%d,%s)", h.sim.name, len(data), sn, errClass(se), rn, errClass(re)))
				if sn != rn || errClass(se) != errClass(re) {
					fail("Write: sim (%d,%v), real (%d,%v)", sn, se, rn, re)
				}
			case 6: // close (possibly twice)
				if len(hs) == 0 {
					continue
				}
				h := hs[next(len(hs))]
				se, re := h.sim.Close(), h.real.Close()
				trace = append(trace, fmt.Sprintf("close %s -> sim %s real %s", h.sim.name, errClass(se), errClass(re)))
				if errClass(se) != errClass(re) {
					fail("Close: sim %v, real %v", se, re)
				}
			case 7: // sync
				if len(hs) == 0 {
					continue
				}
				h := hs[next(len(hs))]
				se, re := h.sim.Sync(), h.real.Sync()
				if errClass(se) != errClass(re) {
					fail("Sync: sim %v, real %v", se, re)
				}
			case 8: // remove
				se, re := Remove(sp), os.Remove(rp)
				trace = append(trace, fmt.Sprintf("remove %s -> sim %s real %s", name, errClass(se), errClass(re)))
				if errClass(se) != errClass(re) {
					fail("Remove(%s): sim %v, real %v", name, se, re)
				}
			case 9: // mkdir
				se, re := Mkdir(sp, 0o755), os.Mkdir(rp, 0o755)
				trace = append(trace, fmt.Sprintf("mkdir %s -> sim %s real %s", name, errClass(se), errClass(re)))
				if errClass(se) != errClass(re) {
					fail("Mkdir(%s): sim %v, real %v", name, se, re)
				}
			case 10: // rename the sub directory away / back (handles stay valid)
				var se, re error
				if next(2) == 0 {
					se, re = Rename("/root/sub", "/root/sub.away"), os.Rename(filepath.Join(realRoot, "sub"), filepath.Join(realRoot, "sub.away"))
				} else {
					se, re = Rename("/root/sub.away", "/root/sub"), os.Rename(filepath.Join(realRoot, "sub.away"), filepath.Join(realRoot, "sub"))
				}
				trace = append(trace, fmt.Sprintf("rename sub -> sim %s real %s", errClass(se), errClass(re)))
				if errClass(se) != errClass(re) {
					fail("Rename: sim %v, real %v", se, re)
				}
			case 11: // readdir
				sd, se := ReadDir("/root")
				rd, re := os.ReadDir(realRoot)
				if errClass(se) != errClass(re) || len(sd) != len(rd) {
					fail("ReadDir: sim %d entries %v, real %d entries %v", len(sd), se, len(rd), re)
				}
				for i := range sd {
					if sd[i].Name() != rd[i].Name() || sd[i].IsDir() != rd[i].IsDir() {
						fail("ReadDir entry %d: sim %s/%v real %s/%v", i, sd[i].Name(), sd[i].IsDir(), rd[i].Name(), rd[i].IsDir())
					}
					si, se := sd[i].Info()
					ri, re := rd[i].Info()
					if errClass(se) != errClass(re) || (se == nil && !si.IsDir() && si.Size() != ri.Size()) {
						fail("Info(%s): sim %v real %v", sd[i].Name(), se, re)
					}
				}
			}
		}
		for _, h := range hs {
			h.real.Close()
		}
		a, b := listSim(simfs, "/root"), listReal(t, realRoot)
		var keys []string
		for k := range a {
			keys = append(keys, k)
		}
		for k := range b {
			if _, ok := a[k]; !ok {
				keys = append(keys, k)
			}
		}
		sort.Strings(keys)
		for _, k := range keys {
			if a[k] != b[k] {
				fail("final state differs at %s: sim %q real %q", k, a[k], b[k])
			}
		}
	}
}

func TestNilAndClosedFileLikeOS(t *testing.T) {
	Reset()
	var sn *File
	var rn *os.File
	check := func(what string, se, re error) {
		if errClass(se) != errClass(re) {
			t.Errorf("%s on nil *File: sim %v, real %v", what, se, re)
		}
	}
	_, se := sn.Write([]byte("x"))
	_, re := rn.Write([]byte("x"))
	check("Write", se, re)
	check("Sync", sn.Sync(), rn.Sync())
	check("Close", sn.Close(), rn.Close())
	_, se = sn.Stat()
	_, re = rn.Stat()
	check("Stat", se, re)
	panics := func(f func()) (p bool) {
		defer func() { p = recover() != nil }()
		f()
		return
	}
	if sp, rp := panics(func() { _ = sn.Name() }), panics(func() { _ = rn.Name() }); sp != rp {
		t.Errorf("Name() on nil *File: sim panics=%v, real panics=%v", sp, rp)
	}
}
