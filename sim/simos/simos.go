// Package simos is the simulated operating-system surface (file system,
// standard streams) that cmd/simgen substitutes for package os in the
// instrumented copy of github.com/go-spring/log.
//
// It is an in-memory inode table with the Linux semantics the properties
// depend on: O_APPEND writes are one atomic contiguous append, O_CREATE without
// O_TRUNC keeps content, handles stay valid after unlink or rename of any path
// component, double Close fails with ErrClosed, methods on a nil *File fail with
// ErrInvalid, ReadDir is sorted by name, DirEntry.Info fails with ErrNotExist
// once the entry is gone. Every operation is a scheduling point, and Write
// reads the caller's slice in chunks with scheduling points in between, which
// models the kernel copying from a user buffer another thread may be
// overwriting.
package simos

import (
	"errors"
	"io"
	"io/fs"
	"os"
	"path"
	"sort"
	"strconv"
	"strings"
	"sync"
	"syscall"
	"time"

	"github.com/go-spring/log/verifsim"
)

// Re-exported names so that code written against package os still builds.
const (
	O_RDONLY = os.O_RDONLY
	O_WRONLY = os.O_WRONLY
	O_RDWR   = os.O_RDWR
	O_APPEND = os.O_APPEND
	O_CREATE = os.O_CREATE
	O_EXCL   = os.O_EXCL
	O_SYNC   = os.O_SYNC
	O_TRUNC  = os.O_TRUNC

	ModePerm       = fs.ModePerm
	ModeDir        = fs.ModeDir
	ModeAppend     = fs.ModeAppend
	ModeExclusive  = fs.ModeExclusive
	ModeTemporary  = fs.ModeTemporary
	ModeSymlink    = fs.ModeSymlink
	ModeDevice     = fs.ModeDevice
	ModeNamedPipe  = fs.ModeNamedPipe
	ModeSocket     = fs.ModeSocket
	ModeSetuid     = fs.ModeSetuid
	ModeSetgid     = fs.ModeSetgid
	ModeCharDevice = fs.ModeCharDevice
	ModeSticky     = fs.ModeSticky
	ModeIrregular  = fs.ModeIrregular
	ModeType       = fs.ModeType
	SEEK_SET       = 0
	SEEK_CUR       = 1
	SEEK_END       = 2
	PathSeparator  = '/'
	DevNull        = "/dev/null"
)

// NewFile returns the standard stream for descriptors 0-2 (anything else has no simulated counterpart).
func NewFile(fd uintptr, name string) *File {
	switch fd {
	case 0:
		return Stdin
	case 1:
		return Stdout
	case 2:
		return Stderr
	}
	return nil
}

func Getpagesize() int { return 4096 }

type (
	FileMode  = fs.FileMode
	FileInfo  = fs.FileInfo
	DirEntry  = fs.DirEntry
	PathError = fs.PathError
	LinkError = os.LinkError
	Signal    = os.Signal
)

var (
	ErrInvalid          = fs.ErrInvalid
	ErrPermission       = fs.ErrPermission
	ErrExist            = fs.ErrExist
	ErrNotExist         = fs.ErrNotExist
	ErrClosed           = fs.ErrClosed
	ErrDeadlineExceeded = os.ErrDeadlineExceeded
	ErrNoDeadline       = os.ErrNoDeadline

	Args      = []string{"simulated"}
	Interrupt = os.Interrupt
	Kill      = os.Kill
)

func IsNotExist(err error) bool   { return os.IsNotExist(err) }
func IsExist(err error) bool      { return os.IsExist(err) }
func IsPermission(err error) bool { return os.IsPermission(err) }
func IsTimeout(err error) bool    { return os.IsTimeout(err) }
func IsPathSeparator(c uint8) bool { return c == '/' }
func Getpid() int                 { return 4242 }
func Getppid() int                { return 1 }
func Getuid() int                 { return 1000 }
func Getgid() int                 { return 1000 }
func Hostname() (string, error)   { return "simhost", nil }
func Getwd() (string, error)      { return Cur().cwd, nil }
func TempDir() string             { return "/tmp" }
func UserHomeDir() (string, error) { return "/home/sim", nil }
func Getenv(k string) string      { return Cur().Env[k] }
func LookupEnv(k string) (string, bool) {
	v, ok := Cur().Env[k]
	return v, ok
}
func Setenv(k, v string) error { Cur().Env[k] = v; return nil }
func Unsetenv(k string) error  { delete(Cur().Env, k); return nil }
func Environ() []string        { return nil }
func ExpandEnv(s string) string {
	return os.Expand(s, Getenv)
}
func Expand(s string, m func(string) string) string { return os.Expand(s, m) }
func Executable() (string, error)                   { return "/bin/simulated", nil }

// ExitPanic is what Exit panics with: process exit inside a simulation ends
// the calling task and is recorded.
type ExitPanic struct{ Code int }

func Exit(code int) { panic(ExitPanic{code}) }

// ---------------------------------------------------------------- inodes

type inode struct {
	id       int
	dir      bool
	data     []byte
	mtime    time.Time
	mode     fs.FileMode
	children map[string]*inode
	nlink    int
	shrinks  int // times the content got shorter (truncate / O_TRUNC)
	rewrites int // times already written bytes were written over
	created  time.Time
	writes   []WriteRec
}

// WriteRec describes one committed write to an inode.
type WriteRec struct {
	Off, Len int
	Step     int // scheduler step at commit
	Task     int
}

// FaultRule makes matching operations fail.
type FaultRule struct {
	Op     string // open, write, sync, close, readdir, info, remove, mkdir, rename, stat
	Prefix string // path prefix ("" = any)
	Err    error
	Skip   int // let this many matching operations pass first
	Count  int // fail this many (-1 = until removed)
	Short  int // write only: bytes committed before the error (short write)
	Fired  int
}

// HandleInfo describes an open handle.
type HandleInfo struct {
	Path string
	Ino  int
	Fd   int
}

// FS is one simulated file system plus standard streams.
type FS struct {
	mu      sync.Mutex
	root    *inode
	nextIno int
	nextFd  int
	handles map[*File]struct{}
	cwd     string
	Env     map[string]string

	Faults []*FaultRule
	Fired  map[string]int // fault kind -> times fired
	Ops    map[string]int // operation -> count

	WriteChunks int // Write reads its argument in this many chunks (>=1) with a yield between chunks
	WriteDelay  int // extra yields before Write commits ("slow sink")

	Stdout []StreamWrite
	Stderr []StreamWrite

	MaxOpen int // high-water mark of open handles

	StdioMode fs.FileMode // fs.ModeCharDevice (terminal, default), fs.ModeNamedPipe, or 0 (regular file)

	removals []Removal

	FailedWrites [][]byte // the buffers of file writes that an injected fault made fail (possibly after a short count)
}

// StreamWrite is one Write call received by a standard stream.
type StreamWrite struct {
	Data []byte
	Step int
	Task int
}

var (
	curMu sync.Mutex
	cur   *FS
)

// Reset installs a fresh, empty file system (with /tmp and the working
// directory /work) and returns it.
func Reset() *FS {
	f := &FS{
		handles:     map[*File]struct{}{},
		cwd:         "/work",
		Env:         map[string]string{},
		Fired:       map[string]int{},
		Ops:         map[string]int{},
		WriteChunks: 1,
		nextFd:      3,
		StdioMode:   fs.ModeCharDevice,
	}
	f.root = f.newInode(true)
	f.MkdirAll("/work")
	f.MkdirAll("/tmp")
	curMu.Lock()
	cur = f
	curMu.Unlock()
	return f
}

// Cur returns the current file system (creating one if needed).
func Cur() *FS {
	curMu.Lock()
	f := cur
	curMu.Unlock()
	if f == nil {
		return Reset()
	}
	return f
}

func now() time.Time { return verifsim.Now() }

func (f *FS) newInode(dir bool) *inode {
	f.nextIno++
	n := &inode{id: f.nextIno, dir: dir, mtime: now(), created: now(), nlink: 1, mode: 0644}
	if dir {
		n.children = map[string]*inode{}
		n.mode = fs.ModeDir | 0755
	}
	return n
}

func (f *FS) clean(p string) string {
	if p == "" {
		return ""
	}
	if !strings.HasPrefix(p, "/") {
		p = f.cwd + "/" + p
	}
	return path.Clean(p)
}

// walk resolves a cleaned absolute path. Returns parent, leaf name, node (nil if missing).
func (f *FS) walk(p string) (parent *inode, name string, n *inode, err error) {
	if p == "/" {
		return nil, "", f.root, nil
	}
	parts := strings.Split(strings.TrimPrefix(p, "/"), "/")
	d := f.root
	for i, part := range parts {
		if !d.dir {
			return nil, "", nil, syscall.ENOTDIR
		}
		c := d.children[part]
		if i == len(parts)-1 {
			return d, part, c, nil
		}
		if c == nil {
			return nil, "", nil, syscall.ENOENT
		}
		d = c
	}
	return nil, "", nil, syscall.ENOENT
}

func (f *FS) fault(op, p string) *FaultRule {
	f.Ops[op]++
	for _, r := range f.Faults {
		if r.Op != op || r.Count == 0 {
			continue
		}
		if r.Prefix != "" && !strings.HasPrefix(p, r.Prefix) {
			continue
		}
		if r.Skip > 0 {
			r.Skip--
			continue
		}
		if r.Count > 0 {
			r.Count--
		}
		r.Fired++
		f.Fired[op+":"+errName(r.Err)]++
		return r
	}
	return nil
}

func errName(err error) string {
	var en syscall.Errno
	if errors.As(err, &en) {
		switch en {
		case syscall.ENOENT:
			return "ENOENT"
		case syscall.EACCES:
			return "EACCES"
		case syscall.EMFILE:
			return "EMFILE"
		case syscall.ENOSPC:
			return "ENOSPC"
		case syscall.EIO:
			return "EIO"
		case syscall.EROFS:
			return "EROFS"
		}
	}
	if err == nil {
		return "nil"
	}
	return err.Error()
}

// AddFault appends a fault rule.
func (f *FS) AddFault(r *FaultRule) *FaultRule {
	f.mu.Lock()
	f.Faults = append(f.Faults, r)
	f.mu.Unlock()
	return r
}

// ClearFaults removes all fault rules (fired counters are kept).
func (f *FS) ClearFaults() {
	f.mu.Lock()
	f.Faults = nil
	f.mu.Unlock()
}

// ---------------------------------------------------------------- os-like API

type File struct {
	fs     *FS
	name   string
	ino    *inode
	flag   int
	pos    int
	closed bool
	fd     int
	stdio  int // 1 stdout, 2 stderr
}

var (
	Stdin  = &File{name: "/dev/stdin", stdio: 3}
	Stdout = &File{name: "/dev/stdout", stdio: 1}
	Stderr = &File{name: "/dev/stderr", stdio: 2}
)

func Open(name string) (*File, error)   { return OpenFile(name, O_RDONLY, 0) }
func Create(name string) (*File, error) { return OpenFile(name, O_RDWR|O_CREATE|O_TRUNC, 0666) }

func OpenFile(name string, flag int, perm FileMode) (*File, error) {
	verifsim.Yield("simos.OpenFile")
	f := Cur()
	f.mu.Lock()
	defer f.mu.Unlock()
	p := f.clean(name)
	if p == "" {
		return nil, &PathError{Op: "open", Path: name, Err: syscall.ENOENT}
	}
	if r := f.fault("open", p); r != nil {
		return nil, &PathError{Op: "open", Path: name, Err: r.Err}
	}
	parent, leaf, n, err := f.walk(p)
	if err != nil {
		if flag&O_CREATE != 0 {
			f.Fired["open:ENOENT(directory gone)"]++
		}
		return nil, &PathError{Op: "open", Path: name, Err: err}
	}
	if n == nil {
		if flag&O_CREATE == 0 {
			return nil, &PathError{Op: "open", Path: name, Err: syscall.ENOENT}
		}
		n = f.newInode(false)
		n.mode = perm & fs.ModePerm
		parent.children[leaf] = n
		parent.mtime = now()
	} else {
		if flag&O_CREATE != 0 && flag&O_EXCL != 0 {
			return nil, &PathError{Op: "open", Path: name, Err: syscall.EEXIST}
		}
		if n.dir && flag&(O_WRONLY|O_RDWR) != 0 {
			return nil, &PathError{Op: "open", Path: name, Err: syscall.EISDIR}
		}
		if flag&O_TRUNC != 0 && !n.dir {
			if len(n.data) > 0 {
				n.shrinks++
			}
			n.data = nil
			n.mtime = now()
		}
	}
	h := &File{fs: f, name: name, ino: n, flag: flag, fd: f.nextFd}
	f.nextFd++
	f.handles[h] = struct{}{}
	if len(f.handles) > f.MaxOpen {
		f.MaxOpen = len(f.handles)
	}
	return h, nil
}

// Name has no nil check, exactly like (*os.File).Name: calling it on a nil
// *File is a nil pointer dereference.
func (h *File) Name() string { return h.name }

func (h *File) Fd() uintptr {
	if h == nil {
		return ^uintptr(0)
	}
	return uintptr(h.fd)
}

func (h *File) check(op string) error {
	if h == nil {
		return ErrInvalid
	}
	if h.stdio != 0 {
		return nil
	}
	if h.closed {
		return &PathError{Op: op, Path: h.name, Err: ErrClosed}
	}
	return nil
}

func stepTask() (int, int) {
	step := 0
	if s := verifsim.Active(); s != nil {
		step = s.StepNo()
	}
	id, _ := verifsim.CurrentTask()
	return step, id
}

// Write commits b as one atomic write (append with O_APPEND). The argument is
// read in FS.WriteChunks chunks with a scheduling point between chunks.
func (h *File) Write(b []byte) (int, error) {
	verifsim.Yield("simos.Write")
	if err := h.check("write"); err != nil {
		if h != nil {
			f := h.filesys()
			f.mu.Lock()
			f.Ops["write_on_closed"]++
			f.mu.Unlock()
		}
		return 0, err
	}
	f := h.filesys()
	f.mu.Lock()
	chunks, delay := f.WriteChunks, f.WriteDelay
	f.mu.Unlock()
	if chunks < 1 {
		chunks = 1
	}
	if verifsim.SinkBusy(1) > 1 {
		verifsim.Probe("sink_write_overlap")
	}
	defer verifsim.SinkBusy(-1)
	buf := make([]byte, 0, len(b))
	n := len(b)
	for c := 0; c < chunks; c++ {
		lo, hi := n*c/chunks, n*(c+1)/chunks
		buf = append(buf, b[lo:hi]...)
		if c < chunks-1 {
			verifsim.Yield("simos.Write/copy")
		}
	}
	for i := 0; i < delay; i++ {
		verifsim.Yield("simos.Write/slow")
	}
	f.mu.Lock()
	defer f.mu.Unlock()
	step, task := stepTask()
	if h.stdio != 0 {
		if r := f.fault("write", h.name); r != nil {
			k := min(r.Short, len(buf))
			if k > 0 {
				f.stream(h.stdio, buf[:k], step, task)
			}
			f.FailedWrites = append(f.FailedWrites, buf)
			return k, &PathError{Op: "write", Path: h.name, Err: r.Err}
		}
		f.stream(h.stdio, buf, step, task)
		return len(buf), nil
	}
	// A Close that arrives while this write is in flight does not fail it: like
	// os.File, the descriptor is only released once in-flight I/O has finished.
	if h.flag&(O_WRONLY|O_RDWR) == 0 {
		return 0, &PathError{Op: "write", Path: h.name, Err: syscall.EBADF}
	}
	if r := f.fault("write", f.clean(h.name)); r != nil {
		k := min(r.Short, len(buf))
		if k > 0 {
			h.commit(buf[:k], step, task)
		}
		f.FailedWrites = append(f.FailedWrites, buf)
		return k, &PathError{Op: "write", Path: h.name, Err: r.Err}
	}
	h.commit(buf, step, task)
	return len(buf), nil
}

func (h *File) filesys() *FS {
	if h.fs != nil {
		return h.fs
	}
	return Cur()
}

func (f *FS) stream(kind int, b []byte, step, task int) {
	w := StreamWrite{Data: append([]byte(nil), b...), Step: step, Task: task}
	if kind == 1 {
		f.Stdout = append(f.Stdout, w)
	} else {
		f.Stderr = append(f.Stderr, w)
	}
}

func (h *File) commit(b []byte, step, task int) {
	n := h.ino
	off := h.pos
	if h.flag&O_APPEND != 0 {
		off = len(n.data)
	}
	if off > len(n.data) {
		n.data = append(n.data, make([]byte, off-len(n.data))...)
	}
	if off < len(n.data) && len(b) > 0 {
		n.rewrites++
	}
	if off+len(b) > len(n.data) {
		n.data = append(n.data, make([]byte, off+len(b)-len(n.data))...)
	}
	copy(n.data[off:], b)
	h.pos = off + len(b)
	n.mtime = now()
	n.writes = append(n.writes, WriteRec{Off: off, Len: len(b), Step: step, Task: task})
}

func (h *File) WriteString(s string) (int, error) { return h.Write([]byte(s)) }

func (h *File) WriteAt(b []byte, off int64) (int, error) {
	verifsim.Yield("simos.WriteAt")
	if err := h.check("write"); err != nil {
		return 0, err
	}
	f := h.filesys()
	f.mu.Lock()
	defer f.mu.Unlock()
	if h.stdio != 0 {
		return 0, &PathError{Op: "writeat", Path: h.name, Err: syscall.ESPIPE}
	}
	save, flag := h.pos, h.flag
	h.pos, h.flag = int(off), h.flag&^O_APPEND
	step, task := stepTask()
	h.commit(append([]byte(nil), b...), step, task)
	h.pos, h.flag = save, flag
	return len(b), nil
}

func (h *File) Read(b []byte) (int, error) {
	verifsim.Yield("simos.Read")
	if err := h.check("read"); err != nil {
		return 0, err
	}
	if h.stdio != 0 {
		return 0, io.EOF
	}
	f := h.filesys()
	f.mu.Lock()
	defer f.mu.Unlock()
	if h.pos >= len(h.ino.data) {
		return 0, io.EOF
	}
	n := copy(b, h.ino.data[h.pos:])
	h.pos += n
	return n, nil
}

func (h *File) ReadAt(b []byte, off int64) (int, error) {
	if err := h.check("read"); err != nil {
		return 0, err
	}
	f := h.filesys()
	f.mu.Lock()
	defer f.mu.Unlock()
	if int(off) >= len(h.ino.data) {
		return 0, io.EOF
	}
	n := copy(b, h.ino.data[off:])
	if n < len(b) {
		return n, io.EOF
	}
	return n, nil
}

func (h *File) Seek(off int64, whence int) (int64, error) {
	if err := h.check("seek"); err != nil {
		return 0, err
	}
	f := h.filesys()
	f.mu.Lock()
	defer f.mu.Unlock()
	switch whence {
	case io.SeekStart:
		h.pos = int(off)
	case io.SeekCurrent:
		h.pos += int(off)
	case io.SeekEnd:
		h.pos = len(h.ino.data) + int(off)
	}
	return int64(h.pos), nil
}

func (h *File) Sync() error {
	verifsim.Yield("simos.Sync")
	if err := h.check("sync"); err != nil {
		return err
	}
	if h.stdio != 0 {
		return nil
	}
	f := h.filesys()
	f.mu.Lock()
	defer f.mu.Unlock()
	if r := f.fault("sync", f.clean(h.name)); r != nil {
		return &PathError{Op: "sync", Path: h.name, Err: r.Err}
	}
	return nil
}

func (h *File) Close() error {
	verifsim.Yield("simos.Close")
	if h == nil {
		return ErrInvalid
	}
	if h.stdio != 0 {
		return nil
	}
	f := h.filesys()
	f.mu.Lock()
	defer f.mu.Unlock()
	if h.closed {
		f.Ops["double_close"]++
		return &PathError{Op: "close", Path: h.name, Err: ErrClosed}
	}
	h.closed = true
	delete(f.handles, h)
	if r := f.fault("close", f.clean(h.name)); r != nil {
		return &PathError{Op: "close", Path: h.name, Err: r.Err}
	}
	return nil
}

func (h *File) Truncate(size int64) error {
	verifsim.Yield("simos.Truncate")
	if err := h.check("truncate"); err != nil {
		return err
	}
	f := h.filesys()
	f.mu.Lock()
	defer f.mu.Unlock()
	return truncate(h.ino, int(size))
}

func truncate(n *inode, size int) error {
	if size < len(n.data) {
		n.data = n.data[:size]
		n.shrinks++
	} else {
		n.data = append(n.data, make([]byte, size-len(n.data))...)
	}
	n.mtime = now()
	return nil
}

func (h *File) Stat() (FileInfo, error) {
	if err := h.check("stat"); err != nil {
		return nil, err
	}
	if h.stdio != 0 {
		// what the standard streams are connected to is a per-run knob: a terminal, a pipe or a file
		return info{name: h.name, mode: h.filesys().StdioMode | 0620}, nil
	}
	f := h.filesys()
	f.mu.Lock()
	defer f.mu.Unlock()
	return infoOf(path.Base(h.name), h.ino), nil
}

func (h *File) Chmod(m FileMode) error { return h.check("chmod") }
func (h *File) SetDeadline(time.Time) error      { return ErrNoDeadline }
func (h *File) SetWriteDeadline(time.Time) error { return ErrNoDeadline }
func (h *File) SetReadDeadline(time.Time) error  { return ErrNoDeadline }

func (h *File) ReadDir(n int) ([]DirEntry, error) {
	if err := h.check("readdir"); err != nil {
		return nil, err
	}
	return ReadDir(h.name)
}

type info struct {
	name  string
	size  int64
	mode  fs.FileMode
	mtime time.Time
	dir   bool
}

func (i info) Name() string       { return i.name }
func (i info) Size() int64        { return i.size }
func (i info) Mode() fs.FileMode  { return i.mode }
func (i info) ModTime() time.Time { return i.mtime }
func (i info) IsDir() bool        { return i.dir }
func (i info) Sys() any           { return nil }

func infoOf(name string, n *inode) info {
	return info{name: name, size: int64(len(n.data)), mode: n.mode, mtime: n.mtime, dir: n.dir}
}

type dirent struct {
	fs   *FS
	dir  string
	name string
	isd  bool
	mode fs.FileMode
}

func (d dirent) Name() string      { return d.name }
func (d dirent) IsDir() bool       { return d.isd }
func (d dirent) Type() fs.FileMode { return d.mode.Type() }
func (d dirent) Info() (FileInfo, error) {
	verifsim.Yield("simos.DirEntry.Info")
	f := d.fs
	f.mu.Lock()
	defer f.mu.Unlock()
	p := path.Join(d.dir, d.name)
	if r := f.fault("info", p); r != nil {
		return nil, &PathError{Op: "lstat", Path: p, Err: r.Err}
	}
	_, _, n, err := f.walk(p)
	if err != nil || n == nil {
		return nil, &PathError{Op: "lstat", Path: p, Err: syscall.ENOENT}
	}
	return infoOf(d.name, n), nil
}

func ReadDir(name string) ([]DirEntry, error) {
	verifsim.Yield("simos.ReadDir")
	f := Cur()
	f.mu.Lock()
	defer f.mu.Unlock()
	p := f.clean(name)
	if r := f.fault("readdir", p); r != nil {
		return nil, &PathError{Op: "open", Path: name, Err: r.Err}
	}
	_, _, n, err := f.walk(p)
	if err != nil || n == nil {
		return nil, &PathError{Op: "open", Path: name, Err: syscall.ENOENT}
	}
	if !n.dir {
		return nil, &PathError{Op: "readdirent", Path: name, Err: syscall.ENOTDIR}
	}
	names := make([]string, 0, len(n.children))
	for k := range n.children {
		names = append(names, k)
	}
	sort.Strings(names)
	out := make([]DirEntry, 0, len(names))
	for _, k := range names {
		c := n.children[k]
		out = append(out, dirent{fs: f, dir: p, name: k, isd: c.dir, mode: c.mode})
	}
	return out, nil
}

func Stat(name string) (FileInfo, error) {
	verifsim.Yield("simos.Stat")
	f := Cur()
	f.mu.Lock()
	defer f.mu.Unlock()
	p := f.clean(name)
	if r := f.fault("stat", p); r != nil {
		return nil, &PathError{Op: "stat", Path: name, Err: r.Err}
	}
	_, _, n, err := f.walk(p)
	if err != nil {
		return nil, &PathError{Op: "stat", Path: name, Err: err}
	}
	if n == nil {
		return nil, &PathError{Op: "stat", Path: name, Err: syscall.ENOENT}
	}
	return infoOf(path.Base(p), n), nil
}

func Lstat(name string) (FileInfo, error) { return Stat(name) }

func Remove(name string) error {
	verifsim.Yield("simos.Remove")
	f := Cur()
	f.mu.Lock()
	defer f.mu.Unlock()
	p := f.clean(name)
	if r := f.fault("remove", p); r != nil {
		return &PathError{Op: "remove", Path: name, Err: r.Err}
	}
	parent, leaf, n, err := f.walk(p)
	if err != nil {
		return &PathError{Op: "remove", Path: name, Err: err}
	}
	if n == nil || parent == nil {
		return &PathError{Op: "remove", Path: name, Err: syscall.ENOENT}
	}
	if n.dir && len(n.children) > 0 {
		return &PathError{Op: "remove", Path: name, Err: syscall.ENOTEMPTY}
	}
	delete(parent.children, leaf)
	n.nlink--
	parent.mtime = now()
	f.Ops["removed"]++
	if !n.dir {
		f.removals = append(f.removals, Removal{Path: p, Mtime: n.mtime, At: now(), ino: n})
	}
	return nil
}

// Removal records one unlinked regular file: its modification time when it went, when it
// went, and what it held - including what holders of open descriptors wrote into it afterwards.
type Removal struct {
	Path  string
	Mtime time.Time
	At    time.Time
	Data  []byte
	ino   *inode
}

// Removals lists the regular files removed through Remove, in order.
func (f *FS) Removals() []Removal {
	f.mu.Lock()
	defer f.mu.Unlock()
	out := append([]Removal(nil), f.removals...)
	for i := range out {
		out[i].Data = append([]byte(nil), out[i].ino.data...)
	}
	return out
}

func RemoveAll(name string) error {
	verifsim.Yield("simos.RemoveAll")
	f := Cur()
	f.mu.Lock()
	defer f.mu.Unlock()
	p := f.clean(name)
	parent, leaf, n, err := f.walk(p)
	if err != nil || n == nil || parent == nil {
		return nil
	}
	delete(parent.children, leaf)
	n.nlink--
	return nil
}

func Rename(oldp, newp string) error {
	verifsim.Yield("simos.Rename")
	f := Cur()
	if r := f.faultLocked("rename", f.clean(oldp)); r != nil {
		return &LinkError{Op: "rename", Old: oldp, New: newp, Err: r.Err}
	}
	return f.Rename(oldp, newp)
}

func (f *FS) faultLocked(op, p string) *FaultRule {
	f.mu.Lock()
	defer f.mu.Unlock()
	return f.fault(op, p)
}

func Mkdir(name string, perm FileMode) error {
	verifsim.Yield("simos.Mkdir")
	f := Cur()
	f.mu.Lock()
	defer f.mu.Unlock()
	p := f.clean(name)
	if r := f.fault("mkdir", p); r != nil {
		return &PathError{Op: "mkdir", Path: name, Err: r.Err}
	}
	parent, leaf, n, err := f.walk(p)
	if err != nil {
		return &PathError{Op: "mkdir", Path: name, Err: err}
	}
	if n != nil {
		return &PathError{Op: "mkdir", Path: name, Err: syscall.EEXIST}
	}
	parent.children[leaf] = f.newInode(true)
	return nil
}

func MkdirAll(name string, perm FileMode) error {
	verifsim.Yield("simos.MkdirAll")
	f := Cur()
	if r := f.faultLocked("mkdir", f.clean(name)); r != nil {
		return &PathError{Op: "mkdir", Path: name, Err: r.Err}
	}
	return f.MkdirAll(name)
}

func ReadFile(name string) ([]byte, error) {
	verifsim.Yield("simos.ReadFile")
	b, ok := Cur().ReadFile(name)
	if !ok {
		return nil, &PathError{Op: "open", Path: name, Err: syscall.ENOENT}
	}
	return b, nil
}

func WriteFile(name string, data []byte, perm FileMode) error {
	h, err := OpenFile(name, O_WRONLY|O_CREATE|O_TRUNC, perm)
	if err != nil {
		return err
	}
	_, err = h.Write(data)
	if e := h.Close(); err == nil {
		err = e
	}
	return err
}

func Truncate(name string, size int64) error {
	verifsim.Yield("simos.Truncate")
	f := Cur()
	f.mu.Lock()
	defer f.mu.Unlock()
	_, _, n, err := f.walk(f.clean(name))
	if err != nil || n == nil {
		return &PathError{Op: "truncate", Path: name, Err: syscall.ENOENT}
	}
	return truncate(n, int(size))
}

func Chmod(name string, m FileMode) error           { return nil }
func Chtimes(name string, a, m time.Time) error {
	if !Cur().SetMtime(name, m) {
		return &PathError{Op: "chtimes", Path: name, Err: syscall.ENOENT}
	}
	return nil
}
func SameFile(a, b FileInfo) bool { return a.Name() == b.Name() && a.ModTime().Equal(b.ModTime()) }

// ---------------------------------------------------------------- harness API (no yields, no faults)

// MkdirAll creates a directory and its parents.
// Chdir sets the working directory relative paths are resolved against.
func (f *FS) Chdir(name string) {
	f.mu.Lock()
	defer f.mu.Unlock()
	f.cwd = f.clean(name)
}

func (f *FS) MkdirAll(name string) error {
	f.mu.Lock()
	defer f.mu.Unlock()
	p := f.clean(name)
	if p == "/" {
		return nil
	}
	d := f.root
	for _, part := range strings.Split(strings.TrimPrefix(p, "/"), "/") {
		c := d.children[part]
		if c == nil {
			c = f.newInode(true)
			d.children[part] = c
		} else if !c.dir {
			return &PathError{Op: "mkdir", Path: name, Err: syscall.ENOTDIR}
		}
		d = c
	}
	return nil
}

// PutFile creates or replaces a regular file with the given content and mtime.
func (f *FS) PutFile(name string, data []byte, mtime time.Time) {
	f.mu.Lock()
	defer f.mu.Unlock()
	p := f.clean(name)
	parent, leaf, n, err := f.walk(p)
	if err != nil {
		panic("simos.PutFile: " + err.Error())
	}
	if n == nil {
		n = f.newInode(false)
		parent.children[leaf] = n
	}
	n.data = append([]byte(nil), data...)
	n.mtime = mtime
	n.writes = nil
}

// SetMtime sets the modification time of a path.
func (f *FS) SetMtime(name string, t time.Time) bool {
	f.mu.Lock()
	defer f.mu.Unlock()
	_, _, n, err := f.walk(f.clean(name))
	if err != nil || n == nil {
		return false
	}
	n.mtime = t
	return true
}

// ReadFile returns a copy of the content of a regular file.
func (f *FS) ReadFile(name string) ([]byte, bool) {
	f.mu.Lock()
	defer f.mu.Unlock()
	_, _, n, err := f.walk(f.clean(name))
	if err != nil || n == nil || n.dir {
		return nil, false
	}
	return append([]byte(nil), n.data...), true
}

// Rename moves a path (directory outages are modelled with it).
func (f *FS) Rename(oldp, newp string) error {
	f.mu.Lock()
	defer f.mu.Unlock()
	op, np := f.clean(oldp), f.clean(newp)
	oparent, oleaf, n, err := f.walk(op)
	if err != nil {
		return &LinkError{Op: "rename", Old: oldp, New: newp, Err: err}
	}
	if n == nil || oparent == nil {
		return &LinkError{Op: "rename", Old: oldp, New: newp, Err: syscall.ENOENT}
	}
	nparent, nleaf, target, err := f.walk(np)
	if err != nil {
		return &LinkError{Op: "rename", Old: oldp, New: newp, Err: err}
	}
	if nparent == nil {
		return &LinkError{Op: "rename", Old: oldp, New: newp, Err: syscall.ENOENT}
	}
	if target != nil && target != n { // POSIX rename(2) over an existing entry
		switch {
		case target.dir: // os.Rename refuses to replace a directory
			return &LinkError{Op: "rename", Old: oldp, New: newp, Err: syscall.EEXIST}
		case n.dir && !target.dir:
			return &LinkError{Op: "rename", Old: oldp, New: newp, Err: syscall.ENOTDIR}
		}
		target.nlink--
	}
	delete(oparent.children, oleaf)
	nparent.children[nleaf] = n
	return nil
}

// Entry is one directory entry as seen by the harness.
type Entry struct {
	Name    string
	IsDir   bool
	Size    int
	ModTime time.Time
	Ino     int
	Shrinks int
	Rewrites int
}

// List returns the entries of a directory sorted by name (nil if missing).
func (f *FS) List(dir string) []Entry {
	f.mu.Lock()
	defer f.mu.Unlock()
	_, _, n, err := f.walk(f.clean(dir))
	if err != nil || n == nil || !n.dir {
		return nil
	}
	var out []Entry
	for k, c := range n.children {
		out = append(out, Entry{Name: k, IsDir: c.dir, Size: len(c.data), ModTime: c.mtime, Ino: c.id, Shrinks: c.shrinks, Rewrites: c.rewrites})
	}
	sort.Slice(out, func(i, j int) bool { return out[i].Name < out[j].Name })
	return out
}

// Exists reports whether the path exists.
func (f *FS) Exists(name string) bool {
	f.mu.Lock()
	defer f.mu.Unlock()
	_, _, n, err := f.walk(f.clean(name))
	return err == nil && n != nil
}

// Writes returns the committed-write log of a file.
func (f *FS) Writes(name string) []WriteRec {
	f.mu.Lock()
	defer f.mu.Unlock()
	_, _, n, err := f.walk(f.clean(name))
	if err != nil || n == nil {
		return nil
	}
	return append([]WriteRec(nil), n.writes...)
}

// Handles lists the open handles.
func (f *FS) Handles() []HandleInfo {
	f.mu.Lock()
	defer f.mu.Unlock()
	var out []HandleInfo
	for h := range f.handles {
		out = append(out, HandleInfo{Path: f.clean(h.name), Ino: h.ino.id, Fd: h.fd})
	}
	sort.Slice(out, func(i, j int) bool { return out[i].Fd < out[j].Fd })
	return out
}

// OpenCount is the number of open handles.
func (f *FS) OpenCount() int {
	f.mu.Lock()
	defer f.mu.Unlock()
	return len(f.handles)
}

// AllFiles returns path -> content for every regular file reachable from the
// root (including files under renamed directories).
func (f *FS) AllFiles() map[string][]byte {
	f.mu.Lock()
	defer f.mu.Unlock()
	out := map[string][]byte{}
	var rec func(p string, n *inode)
	rec = func(p string, n *inode) {
		for k, c := range n.children {
			cp := p + "/" + k
			if c.dir {
				rec(cp, c)
			} else {
				out[cp] = append([]byte(nil), c.data...)
			}
		}
	}
	rec("", f.root)
	return out
}

// OrphanData returns the content of open-but-unlinked files.
func (f *FS) OrphanData() [][]byte {
	f.mu.Lock()
	defer f.mu.Unlock()
	var out [][]byte
	for h := range f.handles {
		if h.ino.nlink == 0 {
			out = append(out, append([]byte(nil), h.ino.data...))
		}
	}
	return out
}

// TotalShrinks is the number of times any file lost content.
func (f *FS) TotalShrinks() int {
	f.mu.Lock()
	defer f.mu.Unlock()
	total := 0
	var rec func(n *inode)
	rec = func(n *inode) {
		total += n.shrinks
		for _, c := range n.children {
			rec(c)
		}
	}
	rec(f.root)
	return total
}

// Snapshot of counters.
func (f *FS) Counters() (ops, fired map[string]int) {
	f.mu.Lock()
	defer f.mu.Unlock()
	ops, fired = map[string]int{}, map[string]int{}
	for k, v := range f.Ops {
		ops[k] = v
	}
	for k, v := range f.Fired {
		fired[k] = v
	}
	return
}

// StdoutWrites / StderrWrites return the writes received by the streams.
func (f *FS) StdoutWrites() []StreamWrite {
	f.mu.Lock()
	defer f.mu.Unlock()
	return append([]StreamWrite(nil), f.Stdout...)
}

func (f *FS) StderrWrites() []StreamWrite {
	f.mu.Lock()
	defer f.mu.Unlock()
	return append([]StreamWrite(nil), f.Stderr...)
}

// SetWriteShape sets chunking and slowness of Write.
func (f *FS) SetWriteShape(chunks, delay int) {
	f.mu.Lock()
	f.WriteChunks, f.WriteDelay = chunks, delay
	f.mu.Unlock()
}

// CreateTemp / MkdirTemp mirror os: deterministic names from a counter.
func CreateTemp(dir, pattern string) (*File, error) {
	if dir == "" {
		dir = TempDir()
	}
	f := Cur()
	f.mu.Lock()
	f.nextIno++
	n := f.nextIno
	f.mu.Unlock()
	name := strings.Replace(pattern, "*", strconv.Itoa(n), 1)
	if !strings.Contains(pattern, "*") {
		name = pattern + strconv.Itoa(n)
	}
	return OpenFile(dir+"/"+name, O_RDWR|O_CREATE|O_EXCL, 0o600)
}

func MkdirTemp(dir, pattern string) (string, error) {
	if dir == "" {
		dir = TempDir()
	}
	f := Cur()
	f.mu.Lock()
	f.nextIno++
	n := f.nextIno
	f.mu.Unlock()
	name := dir + "/" + strings.Replace(pattern, "*", strconv.Itoa(n), 1)
	return name, Mkdir(name, 0o700)
}

// FailedWriteSet returns the attempted contents of all file writes that failed.
func (f *FS) FailedWriteSet() map[string]bool {
	f.mu.Lock()
	defer f.mu.Unlock()
	out := map[string]bool{}
	for _, b := range f.FailedWrites {
		out[string(b)] = true
	}
	return out
}
