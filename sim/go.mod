module github.com/go-spring/log/verifsim

go 1.26.8
